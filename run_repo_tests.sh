#!/bin/sh
# Builds /repo the way the pinned baseline does (cmake + ninja into /repo/_build, hooks guard OFF:
# no -DBINSON_VERIF is ever passed by this script) and runs the pinned ctest suite.
set -e
REPO=${VERIF_REPO:-/repo}
cmake -G Ninja -S "$REPO" -B "$REPO/_build" -DBUILD_TESTS=ON >/dev/null
cmake --build "$REPO/_build" >/dev/null
exec ctest --test-dir "$REPO/_build" -j8 --timeout 900
