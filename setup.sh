#!/bin/sh
# setup: nothing is built ahead of time (every check compiles the library from /repo's
# working tree itself); this only verifies that the toolchain the checks need is present.
fail=0
for t in gcc g++ clang clang++ python3 valgrind gcov nm; do
    if ! command -v "$t" >/dev/null 2>&1; then echo "setup: missing tool: $t"; fail=1; fi
done
echo 'int main(void){return 0;}' > /tmp/.verif_setup_$$.c
if ! gcc -fsanitize=address,undefined -o /tmp/.verif_setup_$$ /tmp/.verif_setup_$$.c 2>/dev/null; then echo "setup: gcc sanitizer runtime missing"; fail=1; fi
rm -f /tmp/.verif_setup_$$ /tmp/.verif_setup_$$.c
mkdir -p "$(dirname "$0")/evidence" "$(dirname "$0")/replay"
exit $fail
