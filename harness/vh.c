/* vh.c — shared harness code (see vh.h). Independent of the library's sources. */
#define _GNU_SOURCE
#include "vh.h"
#include <dirent.h>
#include <errno.h>
#include <fcntl.h>
#include <sys/mman.h>
#include <sys/stat.h>
#include <unistd.h>

/* ================================================================ PRNG == */
void vr_seed(vrng *r, uint64_t seed, uint64_t wid, uint64_t caseno)
{
    vrng t;
    t.s = seed * 0x9E3779B97F4A7C15ULL + 0x1234567;
    t.s ^= vr64(&t) + wid * 0xD1B54A32D192ED03ULL;
    t.s ^= vr64(&t) + caseno * 0x8CB92BA72F3D8DD7ULL;
    r->s = vr64(&t);
}

uint64_t vh_hash(const void *p, size_t n, uint64_t h)
{
    const uint8_t *b = (const uint8_t *)p;
    h ^= 0xcbf29ce484222325ULL + n * 0x100000001b3ULL;
    size_t i = 0;
    for (; i + 8 <= n; i += 8) {
        uint64_t w;
        memcpy(&w, b + i, 8);
        h = (h ^ w) * 0x9E3779B97F4A7C15ULL;
        h ^= h >> 29;
    }
    for (; i < n; i++) {
        h = (h ^ b[i]) * 0x100000001b3ULL;
    }
    h ^= h >> 32;
    h *= 0xD6E8FEB86659FD93ULL;
    h ^= h >> 32;
    return h;
}

/* =============================================================== arena == */
#define VA_CHUNK (1u << 20)
typedef struct vachunk { struct vachunk *next; size_t used, cap; } vachunk;
static vachunk *va_head, *va_cur, *va_big;

void *va(size_t n)
{
    n = (n + 15) & ~(size_t)15;
    if (n > VA_CHUNK / 4) {
        vachunk *c = (vachunk *)calloc(1, sizeof(vachunk) + 16 + n);
        if (!c) { fprintf(stderr, "va: out of memory\n"); exit(2); }
        c->next = va_big; va_big = c;
        return (uint8_t *)c + ((sizeof(vachunk) + 15) & ~(size_t)15);
    }
    if (!va_cur || va_cur->used + n > va_cur->cap) {
        vachunk *c = va_cur ? va_cur->next : va_head;
        if (!c) {
            c = (vachunk *)malloc(sizeof(vachunk) + 16 + VA_CHUNK);
            if (!c) { fprintf(stderr, "va: out of memory\n"); exit(2); }
            c->next = NULL; c->cap = VA_CHUNK;
            if (va_cur) va_cur->next = c; else va_head = c;
        }
        c->used = 0;
        va_cur = c;
    }
    uint8_t *base = (uint8_t *)va_cur + ((sizeof(vachunk) + 15) & ~(size_t)15);
    void *p = base + va_cur->used;
    va_cur->used += n;
    memset(p, 0, n);
    return p;
}

void va_reset(void)
{
    while (va_big) { vachunk *n = va_big->next; free(va_big); va_big = n; }
    va_cur = NULL;
    if (va_head) va_head->used = 0;
}

/* ================================================================ vbuf == */
void vb_reserve(vbuf *b, size_t extra)
{
    if (b->n + extra + 1 > b->cap) {
        size_t nc = b->cap ? b->cap * 2 : 256;
        while (nc < b->n + extra + 1) nc *= 2;
        b->p = (uint8_t *)realloc(b->p, nc);
        if (!b->p) { fprintf(stderr, "vbuf: out of memory\n"); exit(2); }
        b->cap = nc;
    }
}
void vb_put(vbuf *b, const void *src, size_t n) { vb_reserve(b, n); if (n) memcpy(b->p + b->n, src, n); b->n += n; }
void vb_u8(vbuf *b, uint8_t v) { vb_reserve(b, 1); b->p[b->n++] = v; }
void vb_fill(vbuf *b, uint8_t v, size_t n) { vb_reserve(b, n); memset(b->p + b->n, v, n); b->n += n; }
void vb_reset(vbuf *b) { b->n = 0; }
void vb_free(vbuf *b) { free(b->p); b->p = NULL; b->n = b->cap = 0; }
const char *vb_cstr(vbuf *b) { vb_reserve(b, 1); b->p[b->n] = 0; return (const char *)b->p; }
void vb_printf(vbuf *b, const char *fmt, ...)
{
    va_list ap;
    va_start(ap, fmt);
    char tmp[512];
    int k = vsnprintf(tmp, sizeof tmp, fmt, ap);
    va_end(ap);
    if (k < 0) return;
    if ((size_t)k < sizeof tmp) { vb_put(b, tmp, (size_t)k); return; }
    vb_reserve(b, (size_t)k + 1);
    va_start(ap, fmt);
    vsnprintf((char *)b->p + b->n, (size_t)k + 1, fmt, ap);
    va_end(ap);
    b->n += (size_t)k;
}
void vb_hex(vbuf *b, const uint8_t *src, size_t n, size_t maxbytes)
{
    static const char hx[] = "0123456789abcdef";
    size_t m = n < maxbytes ? n : maxbytes;
    for (size_t i = 0; i < m; i++) { vb_u8(b, (uint8_t)hx[src[i] >> 4]); vb_u8(b, (uint8_t)hx[src[i] & 15]); }
    if (m < n) vb_printf(b, "..(+%zu bytes)", n - m);
}
void vb_jsonstr(vbuf *b, const char *s)
{
    for (; *s; s++) {
        unsigned char c = (unsigned char)*s;
        if (c == '"' || c == '\\') { vb_u8(b, '\\'); vb_u8(b, c); }
        else if (c == '\n') { vb_put(b, "\\n", 2); }
        else if (c < 0x20 || c >= 0x7f) vb_printf(b, "\\u%04x", c);
        else vb_u8(b, c);
    }
}

/* ================================================================ tree == */
const char *vkind_name(int k)
{
    static const char *n[] = { "none", "object", "array", "bool", "int", "double", "string", "bytes" };
    return (k >= 0 && k <= K_BYTES) ? n[k] : "?";
}
const char *vbtype_name(int t)
{
    static const char *n[] = { "NONE", "OBJECT", "OBJECT_END", "ARRAY", "ARRAY_END", "BOOLEAN", "INTEGER", "DOUBLE", "STRING", "BYTES" };
    return (t >= 0 && t <= 9) ? n[t] : "?";
}
const char *verr_name(int e)
{
    static const char *n[] = { "NONE", "RANGE", "FORMAT", "EOF", "END_OF_BLOCK", "NULL", "STATE", "WRONG_TYPE", "MAX_DEPTH_OBJECT", "MAX_DEPTH_ARRAY" };
    return (e >= 0 && e <= 9) ? n[e] : "?";
}

vnode *vt_new(int kind)
{
    vnode *n = (vnode *)va(sizeof(vnode));
    n->kind = (uint8_t)kind;
    return n;
}
void vt_add(vnode *parent, vnode *kid)
{
    if (parent->nkids == parent->capkids) {
        uint32_t nc = parent->capkids ? parent->capkids * 2 : 4;
        vnode **nk = (vnode **)va(sizeof(vnode *) * nc);
        if (parent->nkids) memcpy(nk, parent->kids, sizeof(vnode *) * parent->nkids);
        parent->kids = nk; parent->capkids = nc;
    }
    kid->parent = parent;
    kid->index = parent->nkids;
    parent->kids[parent->nkids++] = kid;
}
vnode *vt_int(int64_t v) { vnode *n = vt_new(K_INT); n->i = v; return n; }
vnode *vt_str(int kind, const uint8_t *p, uint32_t len)
{
    vnode *n = vt_new(kind);
    uint8_t *d = (uint8_t *)va(len + 1);
    if (len) memcpy(d, p, len);
    n->data = d; n->data_len = len;
    return n;
}
void vt_setname(vnode *n, const uint8_t *p, uint32_t len)
{
    uint8_t *d = (uint8_t *)va(len + 1);
    if (len) memcpy(d, p, len);
    n->name = d; n->name_len = len;
}
int vt_namecmp(const uint8_t *a, size_t an, const uint8_t *b, size_t bn)
{
    size_t m = an < bn ? an : bn;
    for (size_t i = 0; i < m; i++) {
        if (a[i] != b[i]) return a[i] < b[i] ? -1 : 1;
    }
    return an < bn ? -1 : (an > bn ? 1 : 0);
}
static int cmp_field(const void *x, const void *y)
{
    const vnode *a = *(vnode *const *)x, *b = *(vnode *const *)y;
    return vt_namecmp(a->name, a->name_len, b->name, b->name_len);
}
void vt_sortfields(vnode *obj)
{
    if (obj->nkids < 2) { for (uint32_t i = 0; i < obj->nkids; i++) obj->kids[i]->index = i; return; }
    qsort(obj->kids, obj->nkids, sizeof(vnode *), cmp_field);
    uint32_t w = 1;
    for (uint32_t i = 1; i < obj->nkids; i++) {
        if (cmp_field(&obj->kids[w - 1], &obj->kids[i]) != 0) obj->kids[w++] = obj->kids[i];
    }
    obj->nkids = w;
    for (uint32_t i = 0; i < w; i++) obj->kids[i]->index = i;
}
uint32_t vt_count(const vnode *n)
{
    uint32_t c = 1;
    for (uint32_t i = 0; i < n->nkids; i++) c += vt_count(n->kids[i]);
    return c;
}
binson_type vt_btype(const vnode *n)
{
    switch (n->kind) {
    case K_OBJ: return BINSON_TYPE_OBJECT;
    case K_ARR: return BINSON_TYPE_ARRAY;
    case K_BOOL: return BINSON_TYPE_BOOLEAN;
    case K_INT: return BINSON_TYPE_INTEGER;
    case K_DBL: return BINSON_TYPE_DOUBLE;
    case K_STR: return BINSON_TYPE_STRING;
    case K_BYTES: return BINSON_TYPE_BYTES;
    default: return BINSON_TYPE_NONE;
    }
}

/* ----------------------------------------------------------- generator -- */
void vg_default(vgen *g, int root_kind)
{
    memset(g, 0, sizeof *g);
    g->root_kind = root_kind;
    g->max_nodes = 24;
    g->max_width = 6;
    g->max_obj_depth = 6;
    g->max_arr_depth = 4;
    g->hostile_names = 1;
    g->big_permille = 30;
    g->huge_permille = 2;
    g->container_permille = 300;
}

int64_t vt_rand_int(vrng *r)
{
    uint32_t c = vrn(r, 100);
    if (c < 25) return (int64_t)vrn(r, 41) - 20;
    if (c < 70) {
        uint32_t k = vrn(r, 64);
        int64_t base = (k == 63) ? INT64_MIN : ((int64_t)1 << k);
        int64_t d = (int64_t)vrn(r, 5) - 2;
        uint64_t v = (uint64_t)base + (uint64_t)d;
        if (vrn(r, 2)) v = (uint64_t)0 - v;
        return (int64_t)v;
    }
    if (c < 85) {
        uint32_t bits = 1 + vrn(r, 64);
        uint64_t v = vr64(r);
        if (bits < 64) v &= (((uint64_t)1 << bits) - 1);
        if (vrn(r, 2)) v = (uint64_t)0 - v;
        return (int64_t)v;
    }
    return (int64_t)vr64(r);
}

uint64_t vt_rand_dbits(vrng *r)
{
    static const uint64_t special[] = {
        0x0000000000000000ULL, 0x8000000000000000ULL, 0x7FF0000000000000ULL, 0xFFF0000000000000ULL,
        0x7FF8000000000000ULL, 0xFFF8000000000000ULL, 0x7FF0000000000001ULL, 0x7FFFFFFFFFFFFFFFULL,
        0x0000000000000001ULL, 0x000FFFFFFFFFFFFFULL, 0x0010000000000000ULL, 0x7FEFFFFFFFFFFFFFULL,
        0xFFEFFFFFFFFFFFFFULL, 0x3FF0000000000000ULL, 0xBFF0000000000000ULL, 0x7FE1CCF385EBC8A0ULL /* 1e308 */,
        0xFFE1CCF385EBC8A0ULL, 0x3FB999999999999AULL, 0x4059000000000000ULL, 0x400921FB54442D18ULL
    };
    uint32_t c = vrn(r, 100);
    if (c < 30) return special[vrn(r, sizeof special / sizeof special[0])];
    if (c < 60) return vr64(r);
    double num = (double)((int64_t)vrn(r, 200001) - 100000);     /* two statements: the order of the draws must not depend on the compiler */
    double den = (double)(1 + vrn(r, 1000));
    double d = num / den;
    uint64_t b; memcpy(&b, &d, 8);
    return b;
}

uint32_t vt_rand_len(vrng *r, const vgen *g)
{
    if (g->huge_permille && vrp(r, (uint32_t)g->huge_permille)) {
        static const uint32_t h[] = { 32766, 32767, 32768, 32769, 40000, 65535, 65536, 70000 };
        return h[vrn(r, 8)];
    }
    if (g->big_permille && vrp(r, (uint32_t)g->big_permille)) {
        static const uint32_t h[] = { 126, 127, 128, 129, 130, 255, 256, 300, 1000 };
        return h[vrn(r, 9)];
    }
    uint32_t c = vrn(r, 10);
    if (c < 2) return 0;
    if (c < 8) return 1 + vrn(r, 6);
    return vrn(r, 40);
}

static void rand_bytes(vrng *r, uint8_t *d, uint32_t n, int no_nul)
{
    uint32_t style = vrn(r, 4);
    for (uint32_t i = 0; i < n; i++) {
        uint8_t c;
        switch (style) {
        case 0: c = (uint8_t)('a' + vrn(r, 26)); break;
        case 1: c = (uint8_t)(0x20 + vrn(r, 0x5f)); break;
        case 2: c = (uint8_t)vr64(r); break;
        default: {
            static const uint8_t hot[] = { 0x00, 0x01, 0x7f, 0x80, 0xff, 'a', 'b', 0x40, 0x41, 0x42, 0x43, 0x14, 0x10, '"', '%', '\\' };
            c = hot[vrn(r, sizeof hot)];
        }
        }
        if (no_nul && c == 0) c = 'z';
        d[i] = c;
    }
}

void vt_rand_name(vrng *r, const vgen *g, const uint8_t **p, uint32_t *n)
{
    static const struct { const char *s; uint32_t n; } fam[] = {
        { "", 0 }, { "a", 1 }, { "a\0", 2 }, { "a\0\0", 3 }, { "aa", 2 }, { "ab", 2 }, { "b", 1 }, { "b\xff", 2 },
        { "\x7f", 1 }, { "\x80", 1 }, { "\xff", 1 }, { "\xff\xff", 2 }, { "\0", 1 }, { "A", 1 }, { "z", 1 }, { "a\x80", 2 },
        { "a\x7f", 2 }, { "abc", 3 }, { "ab\0c", 4 }, { "\x01", 1 }
    };
    if (!g->hostile_names) {
        uint32_t len = 1 + vrn(r, 3);
        uint8_t *d = (uint8_t *)va(len + 1);
        for (uint32_t i = 0; i < len; i++) d[i] = (uint8_t)('a' + vrn(r, 6));
        *p = d; *n = len;
        return;
    }
    uint32_t c = vrn(r, 100);
    if (c < 50) {
        for (;;) {
            uint32_t k = vrn(r, sizeof fam / sizeof fam[0]);
            if (g->no_nul && memchr(fam[k].s, 0, fam[k].n)) continue;
            *p = (const uint8_t *)fam[k].s; *n = fam[k].n;
            return;
        }
    }
    if (c < 85) {
        uint32_t len = 1 + vrn(r, 5);
        uint8_t *d = (uint8_t *)va(len + 1);
        rand_bytes(r, d, len, g->no_nul);
        *p = d; *n = len;
        return;
    }
    /* long names that differ only near the end */
    uint32_t len = vt_rand_len(r, g);
    if (len < 100) len = 126 + vrn(r, 5);
    uint8_t *d = (uint8_t *)va(len + 1);
    memset(d, 'n', len);
    d[len - 1] = (uint8_t)("\x01" "ab\x7f\x80\xff"[vrn(r, 6)]);
    if (vrn(r, 3) == 0) d[len / 2] = (uint8_t)('m' + vrn(r, 3));
    *p = d; *n = len;
}

static vnode *gen_value(vrng *r, const vgen *g, int od, int ad, int *budget, int forced_kind)
{
    int kind = forced_kind;
    if (!kind) {
        bool can_obj = od < g->max_obj_depth, can_arr = ad < g->max_arr_depth;
        if (*budget > 1 && vrp(r, (uint32_t)g->container_permille) && (can_obj || can_arr)) {
            kind = (can_obj && (!can_arr || vrn(r, 2))) ? K_OBJ : K_ARR;
        } else {
            static const uint8_t sk[] = { K_BOOL, K_INT, K_INT, K_INT, K_DBL, K_STR, K_STR, K_BYTES };
            kind = sk[vrn(r, sizeof sk)];
        }
    }
    (*budget)--;
    vnode *n = vt_new(kind);
    switch (kind) {
    case K_BOOL: n->b = vrn(r, 2) != 0; break;
    case K_INT: n->i = vt_rand_int(r); break;
    case K_DBL: n->dbits = vt_rand_dbits(r); break;
    case K_STR:
    case K_BYTES: {
        uint32_t len = vt_rand_len(r, g);
        uint8_t *d = (uint8_t *)va(len + 1);
        rand_bytes(r, d, len, (kind == K_STR) && g->no_nul);
        n->data = d; n->data_len = len;
        break;
    }
    case K_OBJ:
    case K_ARR: {
        int want = (int)vrn(r, (uint32_t)g->max_width + 1);
        if (vrn(r, 8) == 0) want = 0;
        for (int k = 0; k < want && *budget > 0; k++) {
            vnode *kid = (kind == K_OBJ) ? gen_value(r, g, od + 1, 0, budget, 0)
                                         : gen_value(r, g, od, ad + 1, budget, 0);
            /* an object child of an array sits one object level deeper */
            if (kind == K_OBJ) {
                const uint8_t *np; uint32_t nl;
                vt_rand_name(r, g, &np, &nl);
                vt_setname(kid, np, nl);
            }
            vt_add(n, kid);
        }
        if (kind == K_OBJ) vt_sortfields(n);
        break;
    }
    }
    return n;
}

/* a chain of containers reaching the nesting limits, with a few siblings on the way */
vnode *vt_ladder(vrng *r, int root_kind, int obj_levels, int arr_run)
{
    vgen g; vg_default(&g, root_kind);
    g.big_permille = 0; g.huge_permille = 0;
    vnode *root = vt_new(root_kind), *cur = root;
    int od = root_kind == K_OBJ ? 1 : 1, ad = root_kind == K_ARR ? 1 : 0;
    int total = 0;
    for (;;) {
        /* a few scalar siblings before and after the descending child */
        int pre = (int)vrn(r, 3), post = (int)vrn(r, 3);
        int kind = 0;
        bool can_obj = od < obj_levels, can_arr = ad < arr_run;
        if (can_obj && can_arr) kind = vrn(r, 3) ? K_ARR : K_OBJ;
        else if (can_arr) kind = K_ARR;
        else if (can_obj) kind = K_OBJ;
        if (++total > 1500) kind = 0;
        vnode *down = NULL;
        for (int i = 0; i < pre + post + 1; i++) {
            vnode *k;
            if (i == pre) { if (!kind) continue; k = vt_new(kind); down = k; }
            else { int budget = 1; k = gen_value(r, &g, 255, 255, &budget, 0); }
            if (cur->kind == K_OBJ) { uint8_t nm[2] = { (uint8_t)('a' + i), (uint8_t)('a' + vrn(r, 3)) }; vt_setname(k, nm, 2); }
            vt_add(cur, k);
        }
        if (!down) break;
        if (kind == K_OBJ) { od++; ad = 0; } else ad++;
        cur = down;
    }
    return root;
}

vnode *vt_gen(vrng *r, const vgen *g)
{
    int budget = g->max_nodes;
    /* od = object levels enclosing the node (an array root pre-occupies level 1, as in the library) */
    return gen_value(r, g, g->root_kind == K_ARR ? 1 : 0, 0, &budget, g->root_kind);
}

/* ------------------------------------------------------------- encoder -- */
void ve_int(vbuf *out, uint8_t base, int64_t v)
{
    int w;
    if (v >= -128 && v <= 127) w = 0;
    else if (v >= -32768 && v <= 32767) w = 1;
    else if (v >= -2147483648LL && v <= 2147483647LL) w = 2;
    else w = 3;
    vb_u8(out, (uint8_t)(base + w));
    uint64_t u = (uint64_t)v;
    for (int i = 0; i < (1 << w); i++) vb_u8(out, (uint8_t)(u >> (8 * i)));
}
void ve_strlike(vbuf *out, uint8_t base, const uint8_t *p, size_t n)
{
    ve_int(out, base, (int64_t)n);
    vb_put(out, p, n);
}
void ve_double(vbuf *out, uint64_t bits)
{
    vb_u8(out, 0x46);
    for (int i = 0; i < 8; i++) vb_u8(out, (uint8_t)(bits >> (8 * i)));
}

static void enc(vnode *n, vbuf *out)
{
    n->off = (uint32_t)out->n;
    switch (n->kind) {
    case K_BOOL: vb_u8(out, n->b ? 0x44 : 0x45); break;
    case K_INT: ve_int(out, 0x10, n->i); break;
    case K_DBL: ve_double(out, n->dbits); break;
    case K_STR:
    case K_BYTES:
        ve_int(out, n->kind == K_STR ? 0x14 : 0x18, (int64_t)n->data_len);
        n->pay_off = (uint32_t)out->n;
        vb_put(out, n->data, n->data_len);
        break;
    case K_OBJ:
        vb_u8(out, 0x40);
        for (uint32_t i = 0; i < n->nkids; i++) {
            vnode *k = n->kids[i];
            k->field_off = (uint32_t)out->n;
            ve_int(out, 0x14, (int64_t)k->name_len);
            k->name_off = (uint32_t)out->n;
            vb_put(out, k->name, k->name_len);
            enc(k, out);
        }
        vb_u8(out, 0x41);
        break;
    case K_ARR:
        vb_u8(out, 0x42);
        for (uint32_t i = 0; i < n->nkids; i++) {
            enc(n->kids[i], out);
            n->kids[i]->field_off = n->kids[i]->off;
        }
        vb_u8(out, 0x43);
        break;
    }
    n->len = (uint32_t)out->n - n->off;
}
void vt_encode(vnode *root, vbuf *out)
{
    enc(root, out);
    root->field_off = root->off;
}

/* ------------------------------------------------------------ renderer -- */
static void render_cstr(const uint8_t *p, uint32_t n, vbuf *t)
{
    vb_u8(t, '"');
    for (uint32_t i = 0; i < n && p[i]; i++) vb_u8(t, p[i]);
    vb_u8(t, '"');
}
void vt_render(const vnode *n, vbuf *t)
{
    switch (n->kind) {
    case K_BOOL: vb_printf(t, "%s", n->b ? "true" : "false"); break;
    case K_INT: vb_printf(t, "%lld", (long long)n->i); break;
    case K_DBL: { double d; memcpy(&d, &n->dbits, 8); vb_printf(t, "%f", d); break; }
    case K_STR: render_cstr(n->data, n->data_len, t); break;
    case K_BYTES:
        vb_put(t, "\"0x", 3);
        for (uint32_t i = 0; i < n->data_len; i++) vb_printf(t, "%02x", n->data[i]);
        vb_u8(t, '"');
        break;
    case K_OBJ:
        vb_u8(t, '{');
        for (uint32_t i = 0; i < n->nkids; i++) {
            if (i) vb_u8(t, ',');
            render_cstr(n->kids[i]->name, n->kids[i]->name_len, t);
            vb_u8(t, ':');
            vt_render(n->kids[i], t);
        }
        vb_u8(t, '}');
        break;
    case K_ARR:
        vb_u8(t, '[');
        for (uint32_t i = 0; i < n->nkids; i++) {
            if (i) vb_u8(t, ',');
            vt_render(n->kids[i], t);
        }
        vb_u8(t, ']');
        break;
    }
}

void vt_describe(const vnode *n, vbuf *o, int budget)
{
    if ((int)o->n > budget) { return; }
    switch (n->kind) {
    case K_BOOL: vb_printf(o, "%s", n->b ? "T" : "F"); break;
    case K_INT: vb_printf(o, "%lld", (long long)n->i); break;
    case K_DBL: vb_printf(o, "d:%016llx", (unsigned long long)n->dbits); break;
    case K_STR: vb_printf(o, "s%u:", n->data_len); vb_hex(o, n->data, n->data_len, 8); break;
    case K_BYTES: vb_printf(o, "x%u:", n->data_len); vb_hex(o, n->data, n->data_len, 8); break;
    case K_OBJ:
        vb_u8(o, '{');
        for (uint32_t i = 0; i < n->nkids && (int)o->n <= budget; i++) {
            if (i) vb_u8(o, ',');
            vb_printf(o, "n%u:", n->kids[i]->name_len); vb_hex(o, n->kids[i]->name, n->kids[i]->name_len, 6);
            vb_u8(o, '=');
            vt_describe(n->kids[i], o, budget);
        }
        vb_u8(o, '}');
        break;
    case K_ARR:
        vb_u8(o, '[');
        for (uint32_t i = 0; i < n->nkids && (int)o->n <= budget; i++) {
            if (i) vb_u8(o, ',');
            vt_describe(n->kids[i], o, budget);
        }
        vb_u8(o, ']');
        break;
    }
}

/* ------------------------------------------------------------- decoder -- */
/* Only for inputs the recogniser accepted. */
static int64_t dec_int(const uint8_t *b, size_t *pos, int w)
{
    int nb = 1 << w;
    uint64_t u = 0;
    for (int i = 0; i < nb; i++) u |= (uint64_t)b[*pos + (size_t)i] << (8 * i);
    if (nb < 8 && (u >> (8 * nb - 1)) & 1) u |= ~(uint64_t)0 << (8 * nb);
    *pos += (size_t)nb;
    return (int64_t)u;
}
static vnode *dec_value(const uint8_t *b, size_t n, size_t *pos)
{
    uint8_t t = b[*pos];
    vnode *v;
    size_t start = *pos;
    (*pos)++;
    if (t == 0x40) {
        v = vt_new(K_OBJ);
        while (b[*pos] != 0x41) {
            size_t fo = *pos;
            uint8_t nt = b[(*pos)++];
            int64_t nl = dec_int(b, pos, nt & 3);
            size_t no = *pos;
            *pos += (size_t)nl;
            vnode *k = dec_value(b, n, pos);
            k->name = b + no; k->name_len = (uint32_t)nl; k->name_off = (uint32_t)no; k->field_off = (uint32_t)fo;
            vt_add(v, k);
        }
        (*pos)++;
    } else if (t == 0x42) {
        v = vt_new(K_ARR);
        while (b[*pos] != 0x43) {
            vnode *k = dec_value(b, n, pos);
            k->field_off = k->off;
            vt_add(v, k);
        }
        (*pos)++;
    } else if (t == 0x44 || t == 0x45) {
        v = vt_new(K_BOOL); v->b = (t == 0x44);
    } else if (t == 0x46) {
        v = vt_new(K_DBL);
        uint64_t u = 0;
        for (int i = 0; i < 8; i++) u |= (uint64_t)b[*pos + (size_t)i] << (8 * i);
        v->dbits = u; *pos += 8;
    } else if (t >= 0x10 && t <= 0x13) {
        v = vt_new(K_INT); v->i = dec_int(b, pos, t & 3);
    } else {
        v = vt_new((t & 0x08) ? K_BYTES : K_STR);
        int64_t l = dec_int(b, pos, t & 3);
        v->data = b + *pos; v->data_len = (uint32_t)l; v->pay_off = (uint32_t)*pos;
        *pos += (size_t)l;
    }
    v->off = (uint32_t)start;
    v->len = (uint32_t)(*pos - start);
    return v;
}
vnode *vt_decode(const uint8_t *b, size_t n, int root_kind)
{
    (void)root_kind;
    size_t pos = 0;
    vnode *r = dec_value(b, n, &pos);
    r->field_off = 0;
    return r;
}

/* ========================================================== recogniser == */
static uint8_t *rk_stack; static size_t rk_cap;

static bool rk_len(const uint8_t *b, size_t n, size_t pos, int w, int64_t *out, int *err)
{
    /* pos points at the first length byte */
    size_t nb = (size_t)1 << w;
    if (nb > n - pos) { *err = RE_RANGE; return false; }
    uint64_t u = 0;
    for (size_t i = 0; i < nb; i++) u |= (uint64_t)b[pos + i] << (8 * i);
    if (nb < 8 && (u >> (8 * nb - 1)) & 1) u |= ~(uint64_t)0 << (8 * nb);
    int64_t v = (int64_t)u;
    bool minimal = (w == 0) ||
                   (w == 1 && (v < -128 || v > 127)) ||
                   (w == 2 && (v < -32768 || v > 32767)) ||
                   (w == 3 && (v < -2147483648LL || v > 2147483647LL));
    if (!minimal) { *err = RE_FORMAT; return false; }
    *out = v;
    return true;
}

vrec vrecognise(const uint8_t *b, size_t n, int root_kind, int max_depth)
{
    vrec R; memset(&R, 0, sizeof R);
    uint8_t first = root_kind == K_OBJ ? 0x40 : 0x42;
    if (n < 2) { R.err = RE_RANGE; R.init_fail = true; return R; }
    if (b[0] != first || b[n - 1] != (uint8_t)(first + 1)) { R.err = RE_FORMAT; R.init_fail = true; return R; }
    if (rk_cap < n + 2) { free(rk_stack); rk_cap = n + 2; rk_stack = (uint8_t *)malloc(rk_cap); }
    size_t sp = 0;
    const uint8_t *lastname[260]; size_t lastlen[260]; bool havename[260];
    uint32_t arrs[260];
    int L = (root_kind == K_ARR) ? 1 : 0;
    memset(arrs, 0, sizeof arrs);
    havename[0] = havename[1] = false;
    bool expect_name = false;
    size_t pos = 0;
    bool started = false;
    int err = RE_OK;

    while (pos < n) {
        uint8_t t = b[pos];
        if (started && sp == 0) { err = RE_FORMAT; goto fail; }       /* trailing bytes */
        if (sp > 0 && rk_stack[sp - 1] == 'O' && expect_name) {
            if (t == 0x41) {
                sp--; pos++; L--;
                expect_name = (sp > 0 && rk_stack[sp - 1] == 'O');
                continue;
            }
            if (t < 0x14 || t > 0x16) { err = RE_FORMAT; goto fail; }
            int64_t len;
            if (!rk_len(b, n, pos + 1, t & 3, &len, &err)) goto fail;
            if (len < 0) { err = RE_FORMAT; goto fail; }
            size_t p0 = pos + 1 + ((size_t)1 << (t & 3));
            if ((uint64_t)len > (uint64_t)(n - p0)) { err = RE_RANGE; goto fail; }
            if (havename[L] && vt_namecmp(lastname[L], lastlen[L], b + p0, (size_t)len) >= 0) { err = RE_FORMAT; goto fail; }
            lastname[L] = b + p0; lastlen[L] = (size_t)len; havename[L] = true;
            pos = p0 + (size_t)len;
            expect_name = false;
            continue;
        }
        /* a value is due (root, after a name, or inside an array) */
        if (sp > 0 && rk_stack[sp - 1] == 'A' && t == 0x43) {
            sp--; pos++; arrs[L]--;
            expect_name = (sp > 0 && rk_stack[sp - 1] == 'O');
            continue;
        }
        if (t == 0x40) {
            if (L >= max_depth || L >= 255) { err = RE_DEPTH_OBJ; goto fail; }
            L++; arrs[L] = 0; havename[L] = false;
            rk_stack[sp++] = 'O'; pos++; expect_name = true; started = true;
            continue;
        }
        if (t == 0x42) {
            if (arrs[L] >= 255) { err = RE_DEPTH_ARR; goto fail; }
            arrs[L]++;
            rk_stack[sp++] = 'A'; pos++; expect_name = false; started = true;
            continue;
        }
        if (t == 0x44 || t == 0x45) { pos++; }
        else if (t == 0x46) {
            if (n - pos - 1 < 8) { err = RE_RANGE; goto fail; }
            pos += 9;
        }
        else if (t >= 0x10 && t <= 0x13) {
            int64_t v;
            if (!rk_len(b, n, pos + 1, t & 3, &v, &err)) goto fail;
            pos += 1 + ((size_t)1 << (t & 3));
        }
        else if ((t >= 0x14 && t <= 0x16) || (t >= 0x18 && t <= 0x1a)) {
            int64_t len;
            if (!rk_len(b, n, pos + 1, t & 3, &len, &err)) goto fail;
            if (len < 0) { err = RE_FORMAT; goto fail; }
            size_t p0 = pos + 1 + ((size_t)1 << (t & 3));
            if ((uint64_t)len > (uint64_t)(n - p0)) { err = RE_RANGE; goto fail; }
            pos = p0 + (size_t)len;
        }
        else { err = RE_FORMAT; goto fail; }
        expect_name = (sp > 0 && rk_stack[sp - 1] == 'O');
    }
    if (sp != 0) { err = RE_RANGE; goto fail; }
    R.ok = true;
    return R;
fail:
    R.ok = false; R.err = err; R.off = pos;
    return R;
}

/* ============================================================ mutators == */
/* simple token walker used only to find token starts in (mostly) valid documents */
static size_t tok_len(const uint8_t *b, size_t n, size_t pos)
{
    uint8_t t = b[pos];
    size_t rem = n - pos;
    if (t >= 0x40 && t <= 0x45) return 1;
    if (t == 0x46) return rem >= 9 ? 9 : rem;
    if (t >= 0x10 && t <= 0x13) { size_t l = 1 + ((size_t)1 << (t & 3)); return l <= rem ? l : rem; }
    if ((t >= 0x14 && t <= 0x16) || (t >= 0x18 && t <= 0x1a)) {
        size_t nb = (size_t)1 << (t & 3);
        if (1 + nb > rem) return rem;
        uint64_t u = 0;
        for (size_t i = 0; i < nb; i++) u |= (uint64_t)b[pos + 1 + i] << (8 * i);
        if (u > rem - 1 - nb) return rem;
        return 1 + nb + (size_t)u;
    }
    return 1;
}

static void vb_insert(vbuf *d, size_t at, const uint8_t *src, size_t n)
{
    vb_reserve(d, n);
    memmove(d->p + at + n, d->p + at, d->n - at);
    memcpy(d->p + at, src, n);
    d->n += n;
}
static void vb_delete(vbuf *d, size_t at, size_t n)
{
    memmove(d->p + at, d->p + at + n, d->n - at - n);
    d->n -= n;
}

void vm_mutate(vrng *r, vbuf *d)
{
    static const uint8_t structural[] = { 0x40, 0x41, 0x42, 0x43, 0x44, 0x45, 0x46, 0x10, 0x11, 0x12, 0x13, 0x14, 0x15, 0x16, 0x17, 0x18, 0x19, 0x1a, 0x1b, 0x00, 0x7f, 0x80, 0xff, 0x01 };
    if (d->n == 0) { vb_u8(d, structural[vrn(r, sizeof structural)]); return; }
    uint32_t op = vrn(r, 15);
    size_t at = vrn(r, (uint32_t)d->n);
    switch (op) {
    case 0: d->p[at] ^= (uint8_t)(1u << vrn(r, 8)); break;
    case 1: d->p[at] = (uint8_t)vr64(r); break;
    case 2: d->p[at] = structural[vrn(r, sizeof structural)]; break;
    case 3: { uint8_t v = (uint8_t)vr64(r); vb_insert(d, at, &v, 1); break; }
    case 4: { uint8_t v = structural[vrn(r, sizeof structural)]; vb_insert(d, at, &v, 1); break; }
    case 5: vb_delete(d, at, 1); break;
    case 6: if (at + 1 < d->n) { uint8_t t = d->p[at]; d->p[at] = d->p[at + 1]; d->p[at + 1] = t; } break;
    case 7: /* truncate, keep the closing byte */
        if (d->n > 2) { uint8_t last = d->p[d->n - 1]; d->n = 1 + vrn(r, (uint32_t)d->n - 1); d->p[d->n - 1] = last; }
        break;
    case 8: /* plain truncation */
        d->n = vrn(r, (uint32_t)d->n + 1);
        break;
    case 9: { uint8_t v = vrn(r, 2) ? d->p[d->n - 1] : structural[vrn(r, sizeof structural)]; vb_u8(d, v); break; } /* trailing byte */
    case 10: { /* duplicate a token-aligned chunk */
        size_t pos = 0, cnt = 0, starts[64];
        while (pos < d->n && cnt < 64) { starts[cnt++] = pos; pos += tok_len(d->p, d->n, pos); }
        if (cnt >= 2) {
            size_t a = vrn(r, (uint32_t)cnt - 1), bnd = a + 1 + vrn(r, (uint32_t)(cnt - a - 1));
            size_t s = starts[a], e = starts[bnd];
            if (e > s && e - s < 4096) {
                uint8_t *tmp = (uint8_t *)malloc(e - s);
                memcpy(tmp, d->p + s, e - s);
                vb_insert(d, vrn(r, 2) ? e : starts[vrn(r, (uint32_t)cnt)], tmp, e - s);
                free(tmp);
            }
        }
        break;
    }
    case 11: case 12: { /* non-minimal re-encoding of one integer or length */
        size_t pos = 0, cand[128], cnt = 0;
        while (pos < d->n) {
            uint8_t t = d->p[pos];
            if (((t >= 0x10 && t <= 0x12) || (t >= 0x14 && t <= 0x15) || (t >= 0x18 && t <= 0x19)) && cnt < 128) cand[cnt++] = pos;
            pos += tok_len(d->p, d->n, pos);
        }
        if (cnt) {
            size_t p = cand[vrn(r, (uint32_t)cnt)];
            size_t nb = (size_t)1 << (d->p[p] & 3);
            if (p + 1 + nb <= d->n) {
                uint8_t ext = (d->p[p + nb] & 0x80) ? 0xff : 0x00;
                uint8_t fill[4] = { ext, ext, ext, ext };
                d->p[p] += 1;
                vb_insert(d, p + 1 + nb, fill, nb);
            }
        }
        break;
    }
    case 13: { /* swap two token-aligned neighbours (breaks ordering) */
        size_t pos = 0, cnt = 0, starts[66];
        while (pos < d->n && cnt < 65) { starts[cnt++] = pos; pos += tok_len(d->p, d->n, pos); }
        starts[cnt] = pos < d->n ? pos : d->n;
        if (cnt >= 3) {
            size_t a = 1 + vrn(r, (uint32_t)cnt - 2);
            size_t s0 = starts[a], s1 = starts[a + 1], s2 = (a + 2 <= cnt) ? starts[a + 2] : d->n;
            if (s2 > s1 && s1 > s0 && s2 <= d->n) {
                size_t l0 = s1 - s0, l1 = s2 - s1;
                uint8_t *tmp = (uint8_t *)malloc(l0 + l1);
                memcpy(tmp, d->p + s1, l1); memcpy(tmp + l1, d->p + s0, l0);
                memcpy(d->p + s0, tmp, l0 + l1);
                free(tmp);
            }
        }
        break;
    }
    default: { /* overwrite a short run */
        size_t k = 1 + vrn(r, 4);
        for (size_t i = 0; i < k && at + i < d->n; i++) d->p[at + i] = structural[vrn(r, sizeof structural)];
    }
    }
}

void vm_soup(vrng *r, vbuf *d, int root_kind, int ntok)
{
    vb_reset(d);
    vb_u8(d, root_kind == K_OBJ ? 0x40 : 0x42);
    for (int i = 0; i < ntok; i++) {
        switch (vrn(r, 16)) {
        case 0: vb_u8(d, 0x40); break;
        case 1: vb_u8(d, 0x41); break;
        case 2: vb_u8(d, 0x42); break;
        case 3: vb_u8(d, 0x43); break;
        case 4: vb_u8(d, vrn(r, 2) ? 0x44 : 0x45); break;
        case 5: ve_double(d, vr64(r)); break;
        case 6: case 7: ve_int(d, 0x10, vt_rand_int(r)); break;
        case 8: case 9: case 10: case 11: { uint8_t nm[3]; uint32_t l = vrn(r, 3); for (uint32_t k = 0; k < l; k++) nm[k] = (uint8_t)('a' + vrn(r, 4)); ve_strlike(d, 0x14, nm, l); break; }
        case 12: { uint8_t nm[4] = { 1, 2, 3, 4 }; ve_strlike(d, 0x18, nm, vrn(r, 5)); break; }
        case 13: vb_u8(d, (uint8_t)(0x10 + vrn(r, 12))); vb_u8(d, (uint8_t)vr64(r)); break;
        case 14: vb_u8(d, (uint8_t)vr64(r)); break;
        default: { uint8_t nm[2] = { (uint8_t)('a' + i % 26), (uint8_t)('a' + vrn(r, 26)) }; ve_strlike(d, 0x14, nm, 2); }
        }
    }
    vb_u8(d, root_kind == K_OBJ ? 0x41 : 0x43);
}

/* ============================================================== corpus == */
vcorp *vcorpus; size_t vncorpus;
static int corp_cmp(const void *a, const void *b) { return strcmp(((const vcorp *)a)->name, ((const vcorp *)b)->name); }
static void corpus_dir(const char *dir, bool valid)
{
    DIR *D = opendir(dir);
    if (!D) return;
    struct dirent *e;
    size_t first = vncorpus;
    while ((e = readdir(D)) != NULL) {
        if (e->d_name[0] == '.') continue;
        char path[1024];
        snprintf(path, sizeof path, "%s/%s", dir, e->d_name);
        FILE *f = fopen(path, "rb");
        if (!f) continue;
        fseek(f, 0, SEEK_END); long sz = ftell(f); fseek(f, 0, SEEK_SET);
        if (sz < 0 || sz > (1 << 20)) { fclose(f); continue; }
        vcorpus = (vcorp *)realloc(vcorpus, sizeof(vcorp) * (vncorpus + 1));
        vcorp *c = &vcorpus[vncorpus++];
        c->p = (uint8_t *)malloc((size_t)sz + 1); c->n = (size_t)sz; c->valid = valid;
        if (sz && fread(c->p, 1, (size_t)sz, f) != (size_t)sz) { /* ignore */ }
        snprintf(c->name, sizeof c->name, "%s/%.36s", valid ? "valid" : "bad", e->d_name);
        fclose(f);
    }
    closedir(D);
    qsort(vcorpus + first, vncorpus - first, sizeof(vcorp), corp_cmp);
}
void vcorpus_load(const char *repo_root)
{
    char d[1024];
    snprintf(d, sizeof d, "%s/utest/test_data/valid_objects", repo_root); corpus_dir(d, true);
    snprintf(d, sizeof d, "%s/utest/test_data/bad_objects", repo_root); corpus_dir(d, false);
}

/* ====================================================== guarded memory == */
uint8_t *vg_exact(size_t n)
{
    if (n == 0) {
        /* first byte of the red zone that follows an 8-byte block */
        uint8_t *p = (uint8_t *)malloc(8);
        return p + 8;
    }
    return (uint8_t *)malloc(n);
}
void vg_free(uint8_t *p, size_t n)
{
    if (!p) return;
    if (n == 0) free(p - 8); else free(p);
}

/* ====================================================== worker runtime == */
vargs VA;
static int saved_stdout = -1;
void vw_mute_stdout(void)
{
    fflush(stdout);
    saved_stdout = dup(1);
    int dn = open("/dev/null", O_WRONLY);
    if (dn >= 0) { dup2(dn, 1); close(dn); }
}
int vw_capture_stdout(void)
{
    fflush(stdout);
    saved_stdout = dup(1);
    int fd = memfd_create("verif-stdout", 0);
    if (fd < 0) return -1;
    dup2(fd, 1);
    return fd;
}
void vw_unmute_stdout(void)
{
    if (saved_stdout >= 0) { fflush(stdout); dup2(saved_stdout, 1); close(saved_stdout); saved_stdout = -1; }
}
static char *inflight; static size_t inflight_sz = 1 << 16;
static uint64_t cur_case, cases_done, nontrivial;
static uint64_t *hset; static size_t hcap, hcnt;
static struct { char name[56]; uint64_t v; } ctr[320]; static int nctr;
static vbuf samples; static int nsamples;
static FILE *violf; static uint64_t nviol;
static struct { char sig[200]; uint64_t n; } sigs[64]; static int nsigs;

static const char *argval(int argc, char **argv, const char *key, const char *def)
{
    for (int i = 1; i + 1 < argc; i++) if (!strcmp(argv[i], key)) return argv[i + 1];
    return def;
}
void vw_init(int argc, char **argv)
{
    VA.seed = strtoull(argval(argc, argv, "--seed", "1"), NULL, 10);
    VA.wid = strtoull(argval(argc, argv, "--wid", "0"), NULL, 10);
    VA.nworkers = strtoull(argval(argc, argv, "--nworkers", "1"), NULL, 10);
    VA.cases = strtoull(argval(argc, argv, "--cases", "1000"), NULL, 10);
    VA.start = strtoull(argval(argc, argv, "--start", "0"), NULL, 10);
    VA.onecase = strtoll(argval(argc, argv, "--onecase", "-1"), NULL, 10);
    VA.mode = argval(argc, argv, "--mode", "");
    VA.outdir = argval(argc, argv, "--out", ".");
    VA.repo = argval(argc, argv, "--repo", "/repo");
    VA.verbose = atoi(argval(argc, argv, "--verbose", "0"));
    VA.tier = atoi(argval(argc, argv, "--tier", "0"));
    VA.maxviol = atoi(argval(argc, argv, "--maxviol", "40"));
    VA.opt = argval(argc, argv, "--opt", "");
    if (VA.onecase >= 0) { VA.start = (uint64_t)VA.onecase; VA.cases = 1; if (!VA.verbose) VA.verbose = 1; }
    char path[1024];
    snprintf(path, sizeof path, "%s/inflight-%llu", VA.outdir, (unsigned long long)VA.wid);
    int fd = open(path, O_RDWR | O_CREAT | O_TRUNC, 0644);
    if (fd >= 0 && ftruncate(fd, (off_t)inflight_sz) == 0) {
        inflight = (char *)mmap(NULL, inflight_sz, PROT_READ | PROT_WRITE, MAP_SHARED, fd, 0);
        if (inflight == MAP_FAILED) inflight = NULL;
    }
    if (fd >= 0) close(fd);
    snprintf(path, sizeof path, "%s/viol-%llu.txt", VA.outdir, (unsigned long long)VA.wid);
    violf = fopen(path, "a");
    hcap = 1 << 16; hset = (uint64_t *)calloc(hcap, 8);
    setvbuf(stdout, NULL, _IOLBF, 0);
}
void vw_inflight(const char *fmt, ...)
{
    if (!inflight) return;
    va_list ap; va_start(ap, fmt);
    int k = snprintf(inflight, 64, "case=%llu ", (unsigned long long)cur_case);
    vsnprintf(inflight + k, inflight_sz - (size_t)k - 1, fmt, ap);
    va_end(ap);
}
/* CPU-time watchdog: a case (or, in c16 mode, a single library call) that burns more process CPU time than the
 * budget never returns as far as this run is concerned. The handler records where and exits with status 7. */
#include <signal.h>
#include <sys/time.h>
static char wd_what[96] = "case";
static void wd_handler(int sig)
{
    (void)sig;
    if (inflight) {
        size_t k = strnlen(inflight, 60);
        snprintf(inflight + k, 200, " CPU-WATCHDOG %s did not return within its CPU budget", wd_what);
    }
    _exit(7);
}
void vw_watchdog(const char *what, int cpu_seconds)
{
    static bool installed;
    if (!installed) { struct sigaction sa; memset(&sa, 0, sizeof sa); sa.sa_handler = wd_handler; sigaction(SIGVTALRM, &sa, NULL); installed = true; }
    snprintf(wd_what, sizeof wd_what, "%s", what);
    struct itimerval it; memset(&it, 0, sizeof it);
    it.it_value.tv_sec = cpu_seconds;
    setitimer(ITIMER_VIRTUAL, &it, NULL);
}
void vw_case(uint64_t caseno)
{
    vw_watchdog("case", 90);
    cur_case = caseno; cases_done++;
    if (inflight) snprintf(inflight, 64, "case=%llu ", (unsigned long long)caseno);
}
uint64_t vw_cases_done(void) { return cases_done; }
void vw_add_evals(uint64_t n) { cases_done += n; }
static void hset_add(uint64_t h)
{
    if (h == 0) h = 1;
    if ((hcnt + 1) * 10 > hcap * 7) {
        size_t nc = hcap * 2; uint64_t *ns = (uint64_t *)calloc(nc, 8);
        for (size_t i = 0; i < hcap; i++) if (hset[i]) { size_t j = (size_t)(hset[i] * 0x9E3779B97F4A7C15ULL >> 20) & (nc - 1); while (ns[j]) j = (j + 1) & (nc - 1); ns[j] = hset[i]; }
        free(hset); hset = ns; hcap = nc;
    }
    size_t j = (size_t)(h * 0x9E3779B97F4A7C15ULL >> 20) & (hcap - 1);
    while (hset[j]) { if (hset[j] == h) return; j = (j + 1) & (hcap - 1); }
    hset[j] = h; hcnt++;
}
void vw_nontrivial(uint64_t hash) { nontrivial++; hset_add(hash); }
bool vw_want_sample(void) { return nsamples < 3 && (cases_done > 30 || VA.cases < 200) ; }
void vw_sample(const char *text)
{
    if (nsamples >= 3) return;
    if (nsamples) vb_u8(&samples, ',');
    vb_u8(&samples, '"');
    char tmp[700]; snprintf(tmp, sizeof tmp, "%.680s", text);
    vb_jsonstr(&samples, tmp);
    vb_u8(&samples, '"');
    nsamples++;
}
static int ctr_find(const char *name)
{
    for (int i = 0; i < nctr; i++) if (!strcmp(ctr[i].name, name)) return i;
    if (nctr >= 320) return 319;
    snprintf(ctr[nctr].name, sizeof ctr[nctr].name, "%s", name);
    ctr[nctr].v = 0;
    return nctr++;
}
void vw_count(const char *name, uint64_t add) { ctr[ctr_find(name)].v += add; }
void vw_max(const char *name, uint64_t v) { int i = ctr_find(name); if (ctr[i].v < v) ctr[i].v = v; }
void vw_violation(const char *sig, const char *fmt, ...)
{
    nviol++;
    int s;
    for (s = 0; s < nsigs; s++) if (!strcmp(sigs[s].sig, sig)) break;
    if (s == nsigs) { if (nsigs < 64) { snprintf(sigs[s].sig, sizeof sigs[s].sig, "%s", sig); sigs[s].n = 0; nsigs++; } else s = 63; }
    sigs[s].n++;
    if (sigs[s].n > 3 && !VA.verbose) return;
    va_list ap; va_start(ap, fmt);
    if (violf) {
        fprintf(violf, "@@VIOLATION\nsig=%s\nwid=%llu\ncase=%llu\nseed=%llu\nmode=%s\n", sig,
                (unsigned long long)VA.wid, (unsigned long long)cur_case, (unsigned long long)VA.seed, VA.mode);
        vfprintf(violf, fmt, ap);
        fprintf(violf, "\n@@END\n");
        fflush(violf);
    }
    va_end(ap);
    if (VA.verbose) {
        va_start(ap, fmt);
        fprintf(stderr, "MISMATCH sig=%s case=%llu\n", sig, (unsigned long long)cur_case);
        vfprintf(stderr, fmt, ap); fprintf(stderr, "\n");
        va_end(ap);
    }
}
bool vw_stop(void) { return nviol >= (uint64_t)VA.maxviol; }
int vw_finish(void)
{
    char path[1024];
    vw_unmute_stdout();
    { struct itimerval it; memset(&it, 0, sizeof it); setitimer(ITIMER_VIRTUAL, &it, NULL); }
    snprintf(path, sizeof path, "%s/hashes-%llu.bin", VA.outdir, (unsigned long long)VA.wid);
    FILE *f = fopen(path, "ab");
    if (f) { for (size_t i = 0; i < hcap; i++) if (hset[i]) fwrite(&hset[i], 8, 1, f); fclose(f); }
    if (violf) fclose(violf);
    vbuf o; memset(&o, 0, sizeof o);
    vb_printf(&o, "@@STATS {\"cases\":%llu,\"nontrivial\":%llu,\"distinct_local\":%zu,\"violations\":%llu,\"counters\":{",
              (unsigned long long)cases_done, (unsigned long long)nontrivial, hcnt, (unsigned long long)nviol);
    for (int i = 0; i < nctr; i++) vb_printf(&o, "%s\"%s\":%llu", i ? "," : "", ctr[i].name, (unsigned long long)ctr[i].v);
    vb_printf(&o, "},\"sigs\":{");
    for (int i = 0; i < nsigs; i++) { vb_printf(&o, "%s\"", i ? "," : ""); vb_jsonstr(&o, sigs[i].sig); vb_printf(&o, "\":%llu", (unsigned long long)sigs[i].n); }
    vb_printf(&o, "},\"samples\":[%s]}", samples.n ? vb_cstr(&samples) : "");
    printf("%s\n", vb_cstr(&o));
    fflush(stdout);
    if (inflight) snprintf(inflight, 64, "done");
    return 0;
}

/* ==================================================== reference cursor == */
void vc_init(vcur *c, vnode *root) { c->root = root; c->nf = 0; c->started = false; c->done = false; }
vnode *vc_current(const vcur *c)
{
    if (c->done) return NULL;
    if (!c->started) return NULL;
    const vframe *f = &c->f[c->nf - 1];
    return f->cur >= 0 ? f->c->kids[f->cur] : NULL;
}
int vc_innermost(const vcur *c) { return (c->started && !c->done && c->nf > 0) ? c->f[c->nf - 1].c->kind : K_NONE; }
bool vc_in_object(const vcur *c) { return vc_innermost(c) == K_OBJ; }
bool vc_can_enter(const vcur *c, int kind)
{
    if (c->done) return false;
    if (!c->started) return c->root->kind == kind;
    vnode *n = vc_current(c);
    return n && n->kind == kind && c->nf < VC_MAXF;
}
void vc_enter(vcur *c)
{
    vnode *n;
    if (!c->started) { c->started = true; n = c->root; }
    else { vframe *f = &c->f[c->nf - 1]; n = f->c->kids[f->cur]; f->cur = -1; }
    c->f[c->nf].c = n; c->f[c->nf].next = 0; c->f[c->nf].cur = -1;
    c->nf++;
}
bool vc_can_leave(const vcur *c, int kind) { return vc_innermost(c) == kind; }
void vc_leave(vcur *c)
{
    c->nf--;
    if (c->nf == 0) c->done = true;
}
bool vc_next(vcur *c)
{
    vframe *f = &c->f[c->nf - 1];
    if (f->next < f->c->nkids) { f->cur = (int32_t)f->next; f->next++; return true; }
    f->cur = -1;
    return false;
}
bool vc_field(vcur *c, const uint8_t *name, size_t len)
{
    vframe *f = &c->f[c->nf - 1];
    uint32_t j = f->next;
    while (j < f->c->nkids) {
        int r = vt_namecmp(f->c->kids[j]->name, f->c->kids[j]->name_len, name, len);
        if (r == 0) { f->cur = (int32_t)j; f->next = j + 1; return true; }
        if (r > 0) break;
        j++;
    }
    f->next = j; f->cur = -1;
    return false;
}
void vc_consume(vcur *c) { c->f[c->nf - 1].cur = -1; }
int vc_depth(const vcur *c)
{
    int d = (c->root->kind == K_ARR) ? 1 : 0;
    for (int i = 0; i < c->nf; i++) if (c->f[i].c->kind == K_OBJ) d++;
    return d;
}
uint64_t vc_hash(const vcur *c, uint64_t h)
{
    h = vh_hash(&c->nf, sizeof c->nf, h);
    uint8_t fl[2] = { c->started, c->done };
    h = vh_hash(fl, 2, h);
    for (int i = 0; i < c->nf; i++) {
        uint32_t t[3] = { c->f[i].c->off, c->f[i].next, (uint32_t)c->f[i].cur };
        h = vh_hash(t, sizeof t, h);
    }
    return h;
}

static char vc_msg[512];
const char *vc_check_getters(binson_parser *p, const vnode *n, bool in_object, const uint8_t *buf, bool thorough, vrng *r)
{
    binson_type t = binson_parser_get_type(p);
    if (t != vt_btype(n)) { snprintf(vc_msg, sizeof vc_msg, "get_type=%s expected %s (value at offset %u)", vbtype_name(t), vbtype_name(vt_btype(n)), n->off); return vc_msg; }
    if (in_object) {
        bbuf *nm = binson_parser_get_name(p);
        if (!nm) { snprintf(vc_msg, sizeof vc_msg, "get_name=NULL for field at offset %u", n->field_off); return vc_msg; }
        if (nm->bptr != buf + n->name_off || nm->bsize != n->name_len) {
            snprintf(vc_msg, sizeof vc_msg, "get_name span off=%ld size=%zu expected off=%u size=%u", (long)(nm->bptr - buf), nm->bsize, n->name_off, n->name_len);
            return vc_msg;
        }
    }
    int64_t gi = binson_parser_get_integer(p);
    bool gb = binson_parser_get_boolean(p);
    double gd = binson_parser_get_double(p);
    uint64_t gdb; memcpy(&gdb, &gd, 8);
    bbuf *gs = binson_parser_get_string_bbuf(p);
    bbuf *gy = binson_parser_get_bytes_bbuf(p);
    switch (n->kind) {
    case K_INT:
        if (gi != n->i) { snprintf(vc_msg, sizeof vc_msg, "get_integer=%lld expected %lld (offset %u)", (long long)gi, (long long)n->i, n->off); return vc_msg; }
        break;
    case K_BOOL:
        if (gb != n->b) { snprintf(vc_msg, sizeof vc_msg, "get_boolean=%d expected %d (offset %u)", gb, n->b, n->off); return vc_msg; }
        break;
    case K_DBL:
        if (gdb != n->dbits) { snprintf(vc_msg, sizeof vc_msg, "get_double bits=%016llx expected %016llx (offset %u)", (unsigned long long)gdb, (unsigned long long)n->dbits, n->off); return vc_msg; }
        break;
    case K_STR:
        if (!gs || gs->bptr != buf + n->pay_off || gs->bsize != n->data_len) {
            snprintf(vc_msg, sizeof vc_msg, "get_string_bbuf off=%ld size=%ld expected off=%u size=%u", gs ? (long)(gs->bptr - buf) : -1L, gs ? (long)gs->bsize : -1L, n->pay_off, n->data_len);
            return vc_msg;
        }
        break;
    case K_BYTES:
        if (!gy || gy->bptr != buf + n->pay_off || gy->bsize != n->data_len) {
            snprintf(vc_msg, sizeof vc_msg, "get_bytes_bbuf off=%ld size=%ld expected off=%u size=%u", gy ? (long)(gy->bptr - buf) : -1L, gy ? (long)gy->bsize : -1L, n->pay_off, n->data_len);
            return vc_msg;
        }
        break;
    default: break;
    }
    if (!thorough) return NULL;
    /* getters of every other type return their neutral result */
    if (n->kind != K_INT && gi != 0) { snprintf(vc_msg, sizeof vc_msg, "get_integer=%lld on a %s value (offset %u), expected 0", (long long)gi, vkind_name(n->kind), n->off); return vc_msg; }
    if (n->kind != K_BOOL && gb) { snprintf(vc_msg, sizeof vc_msg, "get_boolean=true on a %s value (offset %u), expected false", vkind_name(n->kind), n->off); return vc_msg; }
    if (n->kind != K_DBL && gdb != 0) { snprintf(vc_msg, sizeof vc_msg, "get_double bits=%016llx on a %s value (offset %u), expected +0.0", (unsigned long long)gdb, vkind_name(n->kind), n->off); return vc_msg; }
    if (n->kind != K_STR && gs) { snprintf(vc_msg, sizeof vc_msg, "get_string_bbuf non-NULL on a %s value (offset %u)", vkind_name(n->kind), n->off); return vc_msg; }
    if (n->kind != K_BYTES && gy) { snprintf(vc_msg, sizeof vc_msg, "get_bytes_bbuf non-NULL on a %s value (offset %u)", vkind_name(n->kind), n->off); return vc_msg; }
    /* string_equals: true exactly for a string value with exactly these bytes */
    {
        char probe[64];
        const char *probes[6]; bool expect[6]; int np = 0;
        bool has_nul = n->kind == K_STR && memchr(n->data, 0, n->data_len) != NULL;
        probes[np] = ""; expect[np++] = (n->kind == K_STR && n->data_len == 0);
        probes[np] = "a"; expect[np++] = (n->kind == K_STR && n->data_len == 1 && n->data[0] == 'a');
        if (n->kind == K_STR && n->data_len > 0 && n->data_len < 60 && !has_nul) {
            memcpy(probe, n->data, n->data_len); probe[n->data_len] = 0;
            char *same = (char *)va(n->data_len + 4);
            memcpy(same, probe, n->data_len + 1);
            probes[np] = same; expect[np++] = true;
            char *pre = (char *)va(n->data_len + 4);
            memcpy(pre, probe, n->data_len); pre[n->data_len - 1] = 0;
            probes[np] = pre; expect[np++] = false;                      /* proper prefix */
            char *ext = (char *)va(n->data_len + 4);
            memcpy(ext, probe, n->data_len); ext[n->data_len] = (char)('a' + vrn(r, 26)); ext[n->data_len + 1] = 0;
            probes[np] = ext; expect[np++] = false;                      /* extension */
            char *dif = (char *)va(n->data_len + 4);
            memcpy(dif, probe, n->data_len + 1);
            uint32_t at = vrn(r, n->data_len);
            dif[at] = (char)(dif[at] == 'q' ? 'r' : 'q');
            probes[np] = dif; expect[np++] = false;                      /* same length, one byte differs */
        } else if (n->kind == K_STR && has_nul && n->data_len < 60) {
            /* the C-string that equals the value up to its first NUL is NOT equal to the value */
            char *cut = (char *)va(n->data_len + 4);
            memcpy(cut, n->data, n->data_len); cut[n->data_len] = 0;
            probes[np] = cut; expect[np++] = false;
        }
        for (int i = 0; i < np; i++) {
            bool got = binson_parser_string_equals(p, probes[i]);
            if (got != expect[i]) {
                snprintf(vc_msg, sizeof vc_msg, "string_equals(probe of %zu bytes)=%d expected %d on a %s value of %u bytes (offset %u)",
                         strlen(probes[i]), got, expect[i], vkind_name(n->kind), n->data_len, n->off);
                return vc_msg;
            }
        }
    }
    return NULL;
}

static const char *visit_rec(binson_parser *p, vnode *c, const uint8_t *buf, bool thorough, vrng *r, uint64_t *events)
{
    static char msg[600];
    for (uint32_t i = 0; i < c->nkids; i++) {
        if (!binson_parser_next(p)) { snprintf(msg, sizeof msg, "next returned false before element %u of the %s at offset %u (error_flags=%s)", i, vkind_name(c->kind), c->off, verr_name((int)p->error_flags)); return msg; }
        (*events)++;
        vnode *k = c->kids[i];
        const char *e = vc_check_getters(p, k, c->kind == K_OBJ, buf, thorough, r);
        if (e) return e;
        if (k->kind == K_OBJ || k->kind == K_ARR) {
            bool ok = k->kind == K_OBJ ? binson_parser_go_into_object(p) : binson_parser_go_into_array(p);
            if (!ok) { snprintf(msg, sizeof msg, "go_into_%s failed at offset %u", vkind_name(k->kind), k->off); return msg; }
            e = visit_rec(p, k, buf, thorough, r, events);
            if (e) return e;
            ok = k->kind == K_OBJ ? binson_parser_leave_object(p) : binson_parser_leave_array(p);
            if (!ok) { snprintf(msg, sizeof msg, "leave_%s failed for the container at offset %u", vkind_name(k->kind), k->off); return msg; }
        }
    }
    if (binson_parser_next(p)) { snprintf(msg, sizeof msg, "next returned true past the last element of the %s at offset %u", vkind_name(c->kind), c->off); return msg; }
    if (p->error_flags != BINSON_ERROR_NONE) { snprintf(msg, sizeof msg, "error_flags=%s at the end of the %s at offset %u", verr_name((int)p->error_flags), vkind_name(c->kind), c->off); return msg; }
    return NULL;
}
const char *vc_visit_all(binson_parser *p, vnode *root, const uint8_t *buf, bool thorough, vrng *r, uint64_t *events)
{
    bool ok = root->kind == K_OBJ ? binson_parser_go_into_object(p) : binson_parser_go_into_array(p);
    if (!ok) return "go_into of the root failed";
    const char *e = visit_rec(p, root, buf, thorough, r, events);
    if (e) return e;
    ok = root->kind == K_OBJ ? binson_parser_leave_object(p) : binson_parser_leave_array(p);
    if (!ok || p->error_flags != BINSON_ERROR_NONE) return "leaving the root failed or left an error";
    return NULL;
}

/* =============================================== scripted call executor == */
const char *vs_opname[] = { "reset", "verify", "next", "next_ensure", "go_into_object", "go_into_array", "leave_object", "leave_array", "get_type", "get_name", "get_string_bbuf",
    "get_bytes_bbuf", "get_raw", "get_integer", "get_boolean", "get_double", "string_equals", "get_depth", "to_string", "field", "field_with_length", "field_ensure", "field_ensure_with_length", "to_writer" };

void vs_random(vrng *r, vsop *ops, int n, const uint8_t *doc, size_t doclen, bool sensible_root)
{
    static const uint8_t w[S_NOPS] = { 1, 1, 30, 5, 10, 10, 6, 6, 4, 5, 3, 3, 6, 3, 2, 2, 3, 2, 2, 7, 7, 4, 4, 3 };
    static const uint8_t types[] = { BINSON_TYPE_OBJECT, BINSON_TYPE_ARRAY, BINSON_TYPE_BOOLEAN, BINSON_TYPE_INTEGER, BINSON_TYPE_DOUBLE, BINSON_TYPE_STRING, BINSON_TYPE_BYTES, BINSON_TYPE_NONE };
    uint32_t sum = 0; for (int i = 0; i < S_NOPS; i++) sum += w[i];
    for (int i = 0; i < n; i++) {
        uint32_t x = vrn(r, sum); int op = 0; while (x >= w[op]) { x -= w[op]; op++; }
        if (i == 0 && sensible_root) op = (doclen && doc[0] == 0x42) ? S_GO_ARR : S_GO_OBJ;
        memset(&ops[i], 0, sizeof ops[i]);
        ops[i].op = (uint8_t)op;
        ops[i].type = types[vrn(r, 8)];
        ops[i].cap = (uint16_t)(vrn(r, 3) ? vrn(r, 60) : vrn(r, 2000));
        /* a name: from the document when possible, else from the small family */
        uint32_t nl = 0; const uint8_t *np = (const uint8_t *)"";
        if (doclen > 4 && vrn(r, 2)) {
            size_t at = vrn(r, (uint32_t)doclen - 2);
            for (size_t k = 0; k < 24 && at + k + 2 < doclen; k++) if (doc[at + k] == 0x14 && doc[at + k + 1] <= 11 && at + k + 2 + doc[at + k + 1] <= doclen) { np = doc + at + k + 2; nl = doc[at + k + 1]; break; }
        } else {
            static const char *fam[] = { "", "a", "b", "aa", "ab", "bx", "cx", "\x80", "\xff", "z" };
            np = (const uint8_t *)fam[vrn(r, 10)]; nl = (uint32_t)strlen((const char *)np);
        }
        if (vrn(r, 6) == 0 && nl > 0) nl--;
        memcpy(ops[i].name, np, nl); ops[i].nlen = (uint8_t)nl;
    }
}

static bool vs_lookups_allowed(binson_parser *p, vsctx *cx)
{
    if (cx->sp == 0 || cx->stack[cx->sp - 1] != K_OBJ) return false;
    if (p->depth < 1 || p->depth > p->max_depth) return false;
    binson_state *s = &p->state[p->depth - 1];
    return s->array_depth == 0 && (s->flags & 0x0003U) != 0;
}
static void tr_span(vbuf *t, const uint8_t *buf, size_t n, const bbuf *b)
{
    if (!b) { vb_put(t, "\xff\xff", 2); return; }
    int64_t off = (b->bptr >= buf && b->bptr <= buf + n) ? (int64_t)(b->bptr - buf) : -2;
    uint64_t sz = b->bsize;
    vb_put(t, &off, 8); vb_put(t, &sz, 8);
}
void vs_exec(binson_parser *p, const uint8_t *buf, size_t n, vsctx *cx, const vsop *o, vbuf *t)
{
    bool ret = false; uint8_t skipped = 0;
    vb_u8(t, o->op);
    char nm[16]; memcpy(nm, o->name, o->nlen); nm[o->nlen] = 0;
    switch (o->op) {
    case S_RESET: ret = binson_parser_reset(p); cx->sp = 0; break;
    case S_VERIFY: ret = binson_parser_verify(p); cx->sp = 0; break;
    case S_NEXT: ret = binson_parser_next(p); break;
    case S_NEXT_ENSURE: ret = binson_parser_next_ensure(p, (binson_type)o->type); break;
    case S_GO_OBJ: ret = binson_parser_go_into_object(p); if (ret && cx->sp < 64) cx->stack[cx->sp++] = K_OBJ; break;
    case S_GO_ARR: ret = binson_parser_go_into_array(p); if (ret && cx->sp < 64) cx->stack[cx->sp++] = K_ARR; break;
    case S_LEAVE_OBJ: ret = binson_parser_leave_object(p); if (ret) { if (cx->sp && cx->stack[cx->sp - 1] == K_OBJ) cx->sp--; else cx->sp = 0; } break;
    case S_LEAVE_ARR: ret = binson_parser_leave_array(p); if (ret) { if (cx->sp && cx->stack[cx->sp - 1] == K_ARR) cx->sp--; else cx->sp = 0; } break;
    case S_GET_TYPE: vb_u8(t, (uint8_t)binson_parser_get_type(p)); break;
    case S_GET_NAME: {
        /* the error field and a neighbouring getter are read before and after in the same function: get_name may set ERROR_STATE */
        uint8_t e0 = (uint8_t)p->error_flags; int64_t i0 = binson_parser_get_integer(p);
        bbuf *nm = binson_parser_get_name(p);
        uint8_t e1 = (uint8_t)p->error_flags; int64_t i1 = binson_parser_get_integer(p);
        vb_u8(t, e0); vb_put(t, &i0, 8); tr_span(t, buf, n, nm); vb_u8(t, e1); vb_put(t, &i1, 8);
        break;
    }
    case S_GET_STRING: tr_span(t, buf, n, binson_parser_get_string_bbuf(p)); break;
    case S_GET_BYTES: tr_span(t, buf, n, binson_parser_get_bytes_bbuf(p)); break;
    case S_GET_RAW: { bbuf raw; raw.bptr = NULL; raw.bsize = 0; ret = binson_parser_get_raw(p, &raw); if (ret) tr_span(t, buf, n, &raw); break; }
    case S_GET_INT: { int64_t v = binson_parser_get_integer(p); vb_put(t, &v, 8); break; }
    case S_GET_BOOL: vb_u8(t, binson_parser_get_boolean(p)); break;
    case S_GET_DOUBLE: { double v = binson_parser_get_double(p); vb_put(t, &v, 8); break; }
    case S_STR_EQ: ret = binson_parser_string_equals(p, nm); break;
    case S_DEPTH: break;
#ifdef BINSON_PARSER_WITH_PRINT
    case S_TO_STRING: {
        size_t cap = o->cap, sz = cap;
        char *dst = (char *)malloc(cap + 1);
        memset(dst, 0, cap + 1);
        ret = binson_parser_to_string(p, cap ? dst : NULL, &sz, false);
        vb_put(t, &sz, 8);
        if (ret) vb_put(t, dst, sz);
        free(dst);
        cx->sp = 0;
        break;
    }
#else
    case S_TO_STRING: break;
#endif
    case S_FIELD: case S_FIELD_LEN: case S_FIELD_ENSURE: case S_FIELD_ENSURE_LEN:
        if (!vs_lookups_allowed(p, cx)) { skipped = 1; break; }
        if (o->cap % 37 == 5) {            /* documented NULL name: field() returns false, field_with_length() sets ERROR_NULL */
            if (o->op == S_FIELD) ret = binson_parser_field(p, NULL);
            else if (o->op == S_FIELD_LEN) ret = binson_parser_field_with_length(p, NULL, o->nlen);
            else if (o->op == S_FIELD_ENSURE) ret = binson_parser_field_ensure(p, NULL, (binson_type)o->type);
            else ret = binson_parser_field_ensure_with_length(p, NULL, o->nlen, (binson_type)o->type);
            break;
        }
        if (o->op == S_FIELD) ret = binson_parser_field(p, nm);
        else if (o->op == S_FIELD_LEN) ret = binson_parser_field_with_length(p, nm, o->nlen);
        else if (o->op == S_FIELD_ENSURE) ret = binson_parser_field_ensure(p, nm, (binson_type)o->type);
        else ret = binson_parser_field_ensure_with_length(p, nm, o->nlen, (binson_type)o->type);
        break;
    case S_TO_WRITER: {
        size_t cap = o->cap;
        uint8_t *dst = (uint8_t *)malloc(cap + 1);
        binson_writer w; binson_writer_init(&w, dst, cap);
        ret = binson_parser_to_writer(p, &w);
        size_t c = binson_writer_get_counter(&w); vb_put(t, &c, 8); vb_u8(t, (uint8_t)w.error_flags);
        if (w.error_flags == BINSON_ERROR_NONE) vb_put(t, dst, c);
        free(dst);
        break;
    }
    }
    vb_u8(t, (uint8_t)(ret | (skipped << 1)));
    vb_u8(t, (uint8_t)p->error_flags);
    vb_u8(t, (uint8_t)binson_parser_get_depth(p));
}
void vs_describe(const vsop *ops, int n, vbuf *out)
{
    for (int i = 0; i < n; i++) {
        vb_printf(out, "%s", vs_opname[ops[i].op]);
        if (ops[i].op >= S_FIELD && ops[i].op <= S_FIELD_ENSURE_LEN) { vb_u8(out, '('); vb_hex(out, ops[i].name, ops[i].nlen, 12); vb_u8(out, ')'); }
        else if (ops[i].op == S_TO_STRING || ops[i].op == S_TO_WRITER) vb_printf(out, "(cap %u)", ops[i].cap);
        else if (ops[i].op == S_NEXT_ENSURE) vb_printf(out, "(%s)", vbtype_name(ops[i].type));
        vb_u8(out, ' ');
    }
}

/* ====================================================== tree enumeration == */
/* all ordered trees with a given number of nodes over {int, string, object, array} */
static void sl_add(strlist *l, const char *s) { if (l->n == l->cap) { l->cap = l->cap ? l->cap * 2 : 64; l->v = (char **)realloc(l->v, l->cap * sizeof(char *)); } l->v[l->n++] = strdup(s); }
strlist vt_enum[10]; static strlist FOREST[10];
void vt_enum_build(int maxn, const char *LEAVES)
{
    sl_add(&FOREST[0], "");
    for (int n = 1; n <= maxn; n++) {
        if (n == 1) for (const char *q = LEAVES; *q; q++) { char t[2] = { *q, 0 }; sl_add(&vt_enum[1], t); }
        for (size_t i = 0; i < FOREST[n - 1].n; i++) {
            char tmp[64];
            snprintf(tmp, sizeof tmp, "O%s)", FOREST[n - 1].v[i]); sl_add(&vt_enum[n], tmp);
            snprintf(tmp, sizeof tmp, "A%s)", FOREST[n - 1].v[i]); sl_add(&vt_enum[n], tmp);
        }
        if (n == maxn) break;    /* the forests of maxn nodes are not needed */
        for (int k = 1; k <= n; k++)
            for (size_t i = 0; i < vt_enum[k].n; i++)
                for (size_t j = 0; j < FOREST[n - k].n; j++) {
                    char tmp[64];
                    snprintf(tmp, sizeof tmp, "%s%s", vt_enum[k].v[i], FOREST[n - k].v[j]); sl_add(&FOREST[n], tmp);
                }
    }
}
vnode *vt_from_code(const char **s, int *counter)
{
    char ch = *(*s)++;
    vnode *n;
    int id = (*counter)++;
    if (ch == 'i') { n = vt_int((id * 37) % 3 == 0 ? 300 + id : id - 2); return n; }
    if (ch == 's') { uint8_t d[3] = { (uint8_t)('p' + id % 5), 'q', 'r' }; return vt_str(K_STR, d, (uint32_t)(id % 4 == 3 ? 0 : 1 + id % 3)); }
    if (ch == 'b') { vnode *b = vt_new(K_BOOL); b->b = id & 1; return b; }
    n = vt_new(ch == 'O' ? K_OBJ : K_ARR);
    int k = 0;
    while (**s != ')') {
        vnode *kid = vt_from_code(s, counter);
        if (ch == 'O') { uint8_t nm[2] = { (uint8_t)('b' + k), 'x' }; vt_setname(kid, nm, 2); }
        vt_add(n, kid);
        k++;
    }
    (*s)++;
    return n;
}

