/* w_verify.c — C02: binson_parser_verify accepts exactly the well-formed documents.
 * The real verify is compared with the independent recogniser (vrecognise) on
 *   c02e : every token sequence of <= L body tokens over a fixed alphabet (exhaustive),
 *   c02r : nesting ladders, the shipped corpus, random valid documents, mutants, token soup.
 */
#define _GNU_SOURCE
#include "vh.h"

static binson_parser *P;
static uint64_t n_accept, n_reject, n_deptherr, hist_counter, n_history, n_inplace;

static const int DEPTHS[] = { 1, 2, 3, 10, 255 };

/* returns false on mismatch (already reported) */
static bool check_one(const uint8_t *doc, size_t n, int root_kind, int max_depth, uint8_t *exact /* block of exactly n bytes holding doc */, const char *origin)
{
    binson_state *st = (binson_state *)malloc(sizeof(binson_state) * (size_t)max_depth);
    memset(P, 0xC3, sizeof *P);
    memset(st, 0x3C, sizeof(binson_state) * (size_t)max_depth);
    P->state = st; P->max_depth = (uint_fast8_t)max_depth;
    static unsigned which_init;
    /* object roots go through both spellings of the entry point: binson_parser_init (the documented default: an object) and init_object */
    bool init = (root_kind == K_OBJ) ? ((which_init++ & 1) ? binson_parser_init(P, exact, n) : binson_parser_init_object(P, exact, n)) : binson_parser_init_array(P, exact, n);
    if (init && (hist_counter++ % 5) == 0) {
        /* the verdict must not depend on what the object did since init: an abandoned walk and/or a latched error */
        bool b = (root_kind == K_OBJ) ? binson_parser_go_into_object(P) : binson_parser_go_into_array(P);
        for (int i = 0; b && i < 3 + (int)(hist_counter % 4); i++) {
            if (!binson_parser_next(P)) break;
            binson_type ty = binson_parser_get_type(P);
            if (ty == BINSON_TYPE_OBJECT) binson_parser_go_into_object(P); else if (ty == BINSON_TYPE_ARRAY) binson_parser_go_into_array(P);
        }
        if ((hist_counter / 5) % 2) binson_parser_next_ensure(P, (binson_type)77);
        n_history++;
    }
    /* verify is called whatever init answered (an application that forgets to check init must still get 'false');
     * now and then one byte of the accepted buffer changes in place between init and verify (the next message arrived) */
    if (init && n >= 2 && (hist_counter % 7) == 3) {
        size_t at = (hist_counter / 7) % 3 == 0 ? 0 : ((hist_counter / 7) % 3 == 1 ? n - 1 : (size_t)(hist_counter * 2654435761u) % n);
        exact[at] = (uint8_t)(exact[at] ^ (uint8_t)(1u << (hist_counter % 8)));
        n_inplace++;
    }
    bool ver = binson_parser_verify(P);
    bool got = init && ver;
    if (!init && ver) {
        vbuf d0; memset(&d0, 0, sizeof d0);
        vb_printf(&d0, "init rejected the buffer but a following verify returned true\n%s-rooted parser, max_depth=%d, %zu bytes (%s): ", vkind_name(root_kind), max_depth, n, origin);
        vb_hex(&d0, exact, n, 300);
        vw_violation("c02:verify-true-after-rejected-init", "%s", vb_cstr(&d0)); vb_free(&d0);
        free(st);
        return false;
    }
    if (init) got = ver;
    binson_err ef = P->error_flags;
    vrec R = vrecognise(exact, n, root_kind, max_depth);     /* the bytes as they were when verify ran */
    (void)doc;
    bool ok = true;
    char sig[200]; sig[0] = 0;
    char what[400];
    if (got != R.ok) {
        if (R.ok) snprintf(sig, sizeof sig, "c02:rejects-valid:%s:%s", init ? "verify" : "init", verr_name((int)ef));
        else snprintf(sig, sizeof sig, "c02:accepts-invalid:%s", R.err == RE_RANGE ? "RANGE" : R.err == RE_FORMAT ? "FORMAT" : R.err == RE_DEPTH_OBJ ? "DEPTH_OBJECT" : "DEPTH_ARRAY");
        snprintf(what, sizeof what, "init+verify returned %s (error_flags=%s) but the recogniser says %s (first obstacle kind %d at offset %zu)",
                 got ? "true" : "false", verr_name((int)ef), R.ok ? "well-formed" : "malformed", R.err, R.off);
        ok = false;
    } else if (got && ef != BINSON_ERROR_NONE) {
        snprintf(sig, sizeof sig, "c02:accept-with-error:%s", verr_name((int)ef));
        snprintf(what, sizeof what, "verify returned true but error_flags=%s", verr_name((int)ef));
        ok = false;
    } else if (!R.ok && !R.init_fail && (R.err == RE_DEPTH_OBJ || R.err == RE_DEPTH_ARR)) {
        binson_err want = R.err == RE_DEPTH_OBJ ? BINSON_ERROR_MAX_DEPTH_OBJECT : BINSON_ERROR_MAX_DEPTH_ARRAY;
        n_deptherr++;
        if (ef != want) {
            snprintf(sig, sizeof sig, "c02:depth-code:%s-instead-of-%s", verr_name((int)ef), verr_name((int)want));
            snprintf(what, sizeof what, "nesting is the first obstacle (offset %zu) but error_flags=%s, expected %s", R.off, verr_name((int)ef), verr_name((int)want));
            ok = false;
        }
    }
    if (got) n_accept++; else n_reject++;
    if (!ok) {
        vbuf d; memset(&d, 0, sizeof d);
        vb_printf(&d, "%s\n%s-rooted parser, max_depth=%d, %zu bytes (%s): ", what, vkind_name(root_kind), max_depth, n, origin);
        vb_hex(&d, doc, n, 300);
        vw_violation(sig, "%s", vb_cstr(&d));
        vb_free(&d);
    }
    free(st);
    return ok;
}

/* ------------------------------------------------------------- token alphabet -- */
typedef struct { uint8_t b[140]; size_t n; const char *name; } tok;
static tok T[48]; static int NT;
static void addtok(const char *name, const char *bytes, size_t n) { memcpy(T[NT].b, bytes, n); T[NT].n = n; T[NT].name = name; NT++; }
static void build_alphabet(void)
{
#define TK(name, lit) addtok(name, lit, sizeof(lit) - 1)
    TK("{", "\x40"); TK("}", "\x41"); TK("[", "\x42"); TK("]", "\x43"); TK("true", "\x44");
    TK("double", "\x46\x00\x00\x00\x00\x00\x00\xf0\x3f");
    TK("i8:0", "\x10\x00"); TK("i8:-128", "\x10\x80");
    TK("i16:128", "\x11\x80\x00"); TK("i16:127(nonmin)", "\x11\x7f\x00"); TK("i16:-1(nonmin)", "\x11\xff\xff"); TK("i16:-129", "\x11\x7f\xff");
    TK("i32:32768", "\x12\x00\x80\x00\x00"); TK("i32:32767(nonmin)", "\x12\xff\x7f\x00\x00");
    TK("i64:2^31", "\x13\x00\x00\x00\x80\x00\x00\x00\x00"); TK("i64:1(nonmin)", "\x13\x01\x00\x00\x00\x00\x00\x00\x00");
    TK("s:''", "\x14\x00"); TK("s:a", "\x14\x01" "a"); TK("s:b", "\x14\x01" "b"); TK("s:aa", "\x14\x02" "aa"); TK("s:\\x80", "\x14\x01\x80"); TK("s:a\\0", "\x14\x02" "a\0"); TK("s:a\\0b", "\x14\x03" "a\0b");
    {
        char big[140]; big[0] = 0x15; big[1] = (char)0x80; big[2] = 0x00; memset(big + 3, 'a', 128);
        addtok("s:a*128", big, 131);
    }
    TK("s:a(len16 nonmin)", "\x15\x01\x00" "a"); TK("s:neg len", "\x14\xff"); TK("s:len5 short", "\x14\x05" "a"); TK("s:a(len32 nonmin)", "\x16\x01\x00\x00\x00" "a"); TK("s:len INT32_MIN", "\x16\x00\x00\x00\x80"); TK("x:len INT32_MAX", "\x1a\xff\xff\xff\x7f");
    TK("x:''", "\x18\x00"); TK("x:00", "\x18\x01\x00"); TK("x:(len16 nonmin)", "\x19\x01\x00\x00");
    TK("bad:00", "\x00"); TK("bad:17", "\x17\x00"); TK("bad:1b", "\x1b\x00"); TK("bad:47", "\x47"); TK("bad:ff", "\xff");
    TK("trunc double", "\x46\x00"); TK("trunc i16", "\x11");
#undef TK
}

static void enum_case(uint64_t idx, int maxlen)
{
    /* idx -> (length, digits) */
    int len = 0; uint64_t span = 1;
    while (len <= maxlen && idx >= span) { idx -= span; span *= (uint64_t)NT; len++; }
    if (len > maxlen) return;
    int dig[8];
    for (int i = 0; i < len; i++) { dig[i] = (int)(idx % (uint64_t)NT); idx /= (uint64_t)NT; }
    uint8_t body[8 * 140]; size_t bn = 0;
    for (int i = 0; i < len; i++) { memcpy(body + bn, T[dig[i]].b, T[dig[i]].n); bn += T[dig[i]].n; }
    size_t n = bn + 2;
    uint8_t *exact = vg_exact(n);
    char origin[200]; int o = snprintf(origin, sizeof origin, "tokens:");
    for (int i = 0; i < len && o < 180; i++) o += snprintf(origin + o, sizeof origin - (size_t)o, " %s", T[dig[i]].name);
    bool ok = true;
    for (int root = K_OBJ; root <= K_ARR && ok; root++) {
        exact[0] = root == K_OBJ ? 0x40 : 0x42;
        memcpy(exact + 1, body, bn);
        exact[n - 1] = root == K_OBJ ? 0x41 : 0x43;
        for (int d = 1; d <= 3 && ok; d++) ok = check_one(exact, n, root, d, exact, origin);
    }
    vw_nontrivial(vh_hash(body, bn, (uint64_t)len));
    if (ok && len <= 3) {
        /* wrapping variants: missing closing byte, trailing byte, other root's closing byte, unwrapped body */
        uint8_t *e2 = vg_exact(n + 1);
        e2[0] = 0x40; memcpy(e2 + 1, body, bn); e2[n - 1] = 0x41; e2[n] = 0x41;
        ok = check_one(e2, n + 1, K_OBJ, 2, e2, origin);                  /* trailing END */
        if (ok) { e2[n] = 0x00; ok = check_one(e2, n + 1, K_OBJ, 2, e2, origin); }
        vg_free(e2, n + 1);
        if (ok && n >= 3) {
            uint8_t *e3 = vg_exact(n - 1);
            e3[0] = 0x42; memcpy(e3 + 1, body, bn);                        /* closing byte missing: last body byte plays its role */
            ok = check_one(e3, n - 1, K_ARR, 2, e3, origin);
            if (ok) { e3[0] = 0x40; ok = check_one(e3, n - 1, K_OBJ, 2, e3, origin); }
            vg_free(e3, n - 1);
        }
        if (ok) { exact[0] = 0x40; exact[n - 1] = 0x43; ok = check_one(exact, n, K_OBJ, 2, exact, origin); }
        if (ok) { exact[0] = 0x42; exact[n - 1] = 0x41; ok = check_one(exact, n, K_ARR, 2, exact, origin); }
    }
    if (vw_want_sample() && len == maxlen && n_accept % 7 == 3) { char s[300]; snprintf(s, sizeof s, "%s (wrapped as object and as array, max_depth 1..3)", origin); vw_sample(s); }
    vg_free(exact, n);
}

/* -------------------------------------------------------------------- ladders -- */
/* spec: string over 'O' 'A'; the root is spec[0]; an optional garbage byte goes innermost */
static void build_ladder(vbuf *d, const char *spec, size_t len, int garbage, int garbage_at)
{
    vb_reset(d);
    for (size_t i = 0; i < len; i++) {
        if (i > 0 && spec[i - 1] == 'O') { vb_u8(d, 0x14); vb_u8(d, 0x01); vb_u8(d, 'a'); }
        if ((int)i == garbage_at && garbage >= 0) vb_u8(d, (uint8_t)garbage);
        vb_u8(d, spec[i] == 'O' ? 0x40 : 0x42);
    }
    if (garbage >= 0 && garbage_at >= (int)len) {
        if (spec[len - 1] == 'O') { vb_u8(d, 0x14); vb_u8(d, 0x01); vb_u8(d, 'a'); }
        vb_u8(d, (uint8_t)garbage);
    }
    for (size_t i = len; i > 0; i--) vb_u8(d, spec[i - 1] == 'O' ? 0x41 : 0x43);
}

static bool run_doc(const vbuf *d, int root, int depth, const char *origin)
{
    uint8_t *exact = vg_exact(d->n);
    if (d->n) memcpy(exact, d->p, d->n);
    bool ok = check_one(exact, d->n, root, depth, exact, origin);
    vg_free(exact, d->n);
    return ok;
}

static void ladder_cases(vrng *r)
{
    vbuf d; memset(&d, 0, sizeof d);
    char spec[1200];
    /* k nested objects vs max_depth d */
    for (size_t di = 0; di < 5; di++) {
        int dep = DEPTHS[di];
        for (int k = dep - 1; k <= dep + 2; k++) {
            if (k < 1) continue;
            memset(spec, 'O', (size_t)k);
            build_ladder(&d, spec, (size_t)k, -1, 0); run_doc(&d, K_OBJ, dep, "ladder: k nested objects");
            /* malformed byte after the limit: the depth error must still come first */
            build_ladder(&d, spec, (size_t)k, 0x47, k); run_doc(&d, K_OBJ, dep, "ladder: k nested objects + illegal byte innermost");
            build_ladder(&d, spec, (size_t)k, 0x47, 1); run_doc(&d, K_OBJ, dep, "ladder: illegal byte before the nesting");
            /* array root holding k-1 nested objects */
            spec[0] = 'A';
            build_ladder(&d, spec, (size_t)k, -1, 0); run_doc(&d, K_ARR, dep, "ladder: array root + nested objects");
            spec[0] = 'O';
            vw_nontrivial(vh_hash(&k, sizeof k, (uint64_t)dep));
        }
    }
    /* arrays 253..257 deep: as root, as a field value, below an object in an array */
    for (int k = 253; k <= 257; k++) {
        memset(spec, 'A', (size_t)k);
        build_ladder(&d, spec, (size_t)k, -1, 0); run_doc(&d, K_ARR, 1, "ladder: k nested arrays (array root)");
        build_ladder(&d, spec, (size_t)k, 0xff, k); run_doc(&d, K_ARR, 3, "ladder: k nested arrays + illegal byte innermost");
        spec[0] = 'O';
        build_ladder(&d, spec, (size_t)k, -1, 0); run_doc(&d, K_OBJ, 1, "ladder: object root + k-1 nested arrays");
        spec[0] = 'A'; spec[1] = 'O';
        build_ladder(&d, spec, (size_t)k, -1, 0); run_doc(&d, K_ARR, 2, "ladder: [ { k-2 nested arrays } ]");
        run_doc(&d, K_ARR, 1, "ladder: [ { ... } ] at max_depth 1");
        spec[1] = 'A';
        /* array run interrupted by an object: counters are per object level */
        spec[200] = 'O';
        build_ladder(&d, spec, (size_t)k, -1, 0); run_doc(&d, K_ARR, 2, "ladder: 200 arrays, object, arrays"); run_doc(&d, K_ARR, 1, "ladder: 200 arrays, object, arrays at max_depth 1");
        spec[200] = 'A';
        vw_nontrivial(vh_hash(&k, sizeof k, 99));
    }
    /* random mixed ladders around both limits */
    for (int it = 0; it < 60; it++) {
        int dep = DEPTHS[vrn(r, 5)];
        size_t len = 1 + vrn(r, 600);
        for (size_t i = 0; i < len; i++) spec[i] = vrn(r, 4) ? 'A' : 'O';
        build_ladder(&d, spec, len, vrn(r, 3) ? -1 : 0x1b, (int)vrn(r, (uint32_t)len + 1));
        run_doc(&d, spec[0] == 'O' ? K_OBJ : K_ARR, dep, "ladder: random mix");
        vw_nontrivial(vh_hash(spec, len, (uint64_t)dep));
    }
    vb_free(&d);
}

/* ------------------------------------------------------- length-prefix family -- */
/* every string / bytes / field-name prefix width with the boundary values of its stored length, read as signed and as
   unsigned, and with enough payload behind it for EITHER reading (a negative 16-bit length is only visible as an
   acceptance when 32768..65535 payload bytes really follow) */
static void length_cases(void)
{
    static const struct { int w; uint32_t v; } L[] = {
        {1, 0x00}, {1, 0x01}, {1, 0x7f}, {1, 0x80}, {1, 0xff},
        {2, 0x0000}, {2, 0x007f}, {2, 0x0080}, {2, 0x00ff}, {2, 0x0100}, {2, 0x7fff}, {2, 0x8000}, {2, 0x8001}, {2, 0xff80}, {2, 0xffff},
        {4, 0x00000000}, {4, 0x0000007f}, {4, 0x00007fff}, {4, 0x00008000}, {4, 0x0000ffff}, {4, 0x00010000}, {4, 0x00011170},
        {4, 0xffff8000u}, {4, 0xffffffffu}, {4, 0x80000000u}, {4, 0xffff0000u},
    };
    vbuf d; memset(&d, 0, sizeof d);
    for (size_t i = 0; i < sizeof L / sizeof L[0]; i++) {
        for (int where = 0; where < 4; where++) {          /* 0 string value, 1 bytes value, 2 field name, 3 string element of an array root */
            for (int fill = 0; fill < 3; fill++) {           /* payload sized for the unsigned reading / the low 16 bits / nothing */
                uint32_t un = L[i].v, pay = fill == 0 ? un : fill == 1 ? (un & 0xffffu) : 0;
                if (pay > 80000) pay = 70001;
                vb_reset(&d);
                vb_u8(&d, where == 3 ? 0x42 : 0x40);
                uint8_t base = where == 1 ? 0x18 : 0x14;
                if (where < 2) { vb_u8(&d, 0x14); vb_u8(&d, 0x01); vb_u8(&d, 'a'); }
                vb_u8(&d, (uint8_t)(base + (L[i].w == 1 ? 0 : L[i].w == 2 ? 1 : 2)));
                for (int b = 0; b < L[i].w; b++) vb_u8(&d, (uint8_t)(un >> (8 * b)));
                for (uint32_t b = 0; b < pay; b++) vb_u8(&d, 'x');
                if (where == 2) vb_u8(&d, 0x44);
                vb_u8(&d, where == 3 ? 0x43 : 0x41);
                run_doc(&d, where == 3 ? K_ARR : K_OBJ, 2, "length prefix family: width x stored length x payload present");
                vw_nontrivial(vh_hash(&L[i], sizeof L[i], (uint64_t)(where * 3 + fill)));
            }
        }
    }
    vw_count("length_prefix_cases", (uint64_t)(sizeof L / sizeof L[0]) * 12);
    vb_free(&d);
}

/* --------------------------------------------------------------- random cases -- */
static int needed_levels(const vnode *n, int od)
{
    int here = od + (n->kind == K_OBJ ? 1 : 0), best = here;
    for (uint32_t i = 0; i < n->nkids; i++) { int d = needed_levels(n->kids[i], here); if (d > best) best = d; }
    return best;
}

static void random_case(vrng *r, uint64_t global)
{
    vbuf d; memset(&d, 0, sizeof d);
    char origin[120];
    int root = vrn(r, 3) ? K_OBJ : K_ARR;
    int depth = DEPTHS[vrn(r, 5)];
    if (global < vncorpus * 5) {
        vcorp *c = &vcorpus[global / 5];
        vb_put(&d, c->p, c->n);
        depth = DEPTHS[global % 5];
        root = K_OBJ;
        snprintf(origin, sizeof origin, "corpus file %s", c->name);
        vw_count("corpus_runs", 1);
    } else {
        uint32_t kind = vrn(r, 100);
        if (kind < 12) {
            vm_soup(r, &d, root, 1 + (int)vrn(r, 12));
            snprintf(origin, sizeof origin, "token soup");
        } else {
            vgen g; vg_default(&g, root);
            g.max_nodes = 3 + (int)vrn(r, vrn(r, 5) ? 20 : 200);
            if (vrn(r, 6) == 0) { g.max_obj_depth = 12; g.container_permille = 800; g.max_width = 3; }
            vnode *t = vrn(r, 50) == 0 ? vt_ladder(r, root, 1 + (int)vrn(r, 256), 1 + (int)vrn(r, 256)) : vt_gen(r, &g);
            vt_encode(t, &d);
            int need = needed_levels(t, root == K_ARR ? 1 : 0);
            /* the depth boundary is the interesting configuration */
            uint32_t dc = vrn(r, 10);
            if (dc < 3) depth = need; else if (dc < 5) depth = need - 1; else if (dc < 6) depth = need + 1;
            if (depth < 1) depth = 1;
            if (depth > 255) depth = 255;
            if (kind < 45) snprintf(origin, sizeof origin, "valid document, needs %d levels", need);
            else {
                int nm = 1 + (int)vrn(r, 3);
                for (int i = 0; i < nm; i++) vm_mutate(r, &d);
                snprintf(origin, sizeof origin, "valid document + %d mutation(s)", nm);
            }
            if (vrn(r, 40) == 0) root = (root == K_OBJ) ? K_ARR : K_OBJ;     /* wrong kind of parser */
        }
    }
    uint64_t a0 = n_accept;
    run_doc(&d, root, depth, origin);
    vw_count(n_accept > a0 ? "accepted" : "rejected", 1);
    if (d.n >= 3) vw_nontrivial(vh_hash(d.p, d.n, (uint64_t)(root * 1000 + depth)));
    if (vw_want_sample() && d.n > 6 && d.n < 60) {
        vbuf s; memset(&s, 0, sizeof s);
        vb_printf(&s, "%s: ", origin); vb_hex(&s, d.p, d.n, 60);
        vb_printf(&s, " %s-rooted max_depth=%d -> %s", vkind_name(root), depth, n_accept > a0 ? "accepted by both" : "rejected by both");
        vw_sample(vb_cstr(&s)); vb_free(&s);
    }
    vb_free(&d);
}

int main(int argc, char **argv)
{
    vw_init(argc, argv);
    P = (binson_parser *)malloc(sizeof(binson_parser));
    vrng r;
    if (!strcmp(VA.mode, "c02e")) {
        build_alphabet();
        int maxlen = atoi(VA.opt); if (maxlen < 1) maxlen = 3;
        uint64_t total = 0, span = 1;
        for (int l = 0; l <= maxlen; l++) { total += span; span *= (uint64_t)NT; }
        uint64_t stride = 1;
        const char *st = strstr(VA.opt, "stride="); if (st) stride = strtoull(st + 7, NULL, 10);
        for (uint64_t k = VA.start; !vw_stop(); k++) {
            uint64_t idx = (k * VA.nworkers + VA.wid) * stride + (stride > 1 ? (VA.seed * 7919 + k * 31) % stride : 0);
            if (idx >= total) break;
            if (VA.onecase >= 0 && k != (uint64_t)VA.onecase) break;
            vw_case(k);
            va_reset();
            enum_case(idx, maxlen);
        }
        vw_count("alphabet_tokens", VA.wid == 0 ? (uint64_t)NT : 0);
        vw_count("verify_accepted", n_accept); vw_count("verify_rejected", n_reject); vw_count("depth_first_obstacle", n_deptherr); vw_count("verify_after_abandoned_walk_or_error", n_history); vw_count("verify_after_in_place_change", n_inplace);
        return vw_finish();
    }
    vcorpus_load(VA.repo);
    for (uint64_t k = VA.start; k < VA.start + VA.cases && !vw_stop(); k++) {
        vw_case(k);
        vr_seed(&r, VA.seed, VA.wid, k);
        va_reset();
        if (k == 0 && VA.wid < 4) { ladder_cases(&r); vw_count("ladder_batches", 1); if (VA.wid == 0) length_cases(); continue; }
        random_case(&r, k * VA.nworkers + VA.wid);
    }
    vw_count("verify_accepted", n_accept); vw_count("verify_rejected", n_reject); vw_count("depth_first_obstacle", n_deptherr); vw_count("verify_after_abandoned_walk_or_error", n_history); vw_count("verify_after_in_place_change", n_inplace);
    return vw_finish();
}
