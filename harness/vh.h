/* vh.h — shared harness code for the binson-c-light runtime monitors.
 *
 * Everything here is written from BINSON-SPEC-1 / the grammar comment in
 * binson_defines.h and shares no code with the library under test.
 */
#ifndef VH_H
#define VH_H

#include <stdint.h>
#include <stdbool.h>
#include <stddef.h>
#include <stdio.h>
#include <stdlib.h>
#include <string.h>
#include <stdarg.h>

#ifdef __cplusplus
extern "C" {
#endif

#include "binson_light.h"

/* ---------------------------------------------------------------- PRNG -- */
typedef struct { uint64_t s; } vrng;
static inline uint64_t vr64(vrng *r)
{
    uint64_t z = (r->s += 0x9E3779B97F4A7C15ULL);
    z = (z ^ (z >> 30)) * 0xBF58476D1CE4E5B9ULL;
    z = (z ^ (z >> 27)) * 0x94D049BB133111EBULL;
    return z ^ (z >> 31);
}
static inline uint32_t vrn(vrng *r, uint32_t n) { return n ? (uint32_t)((vr64(r) >> 16) % n) : 0; }
static inline bool vrp(vrng *r, uint32_t permille) { return vrn(r, 1000) < permille; }
static inline uint32_t vrr(vrng *r, uint32_t lo, uint32_t hi) { return lo + vrn(r, hi - lo + 1); }
void vr_seed(vrng *r, uint64_t seed, uint64_t wid, uint64_t caseno);
uint64_t vh_hash(const void *p, size_t n, uint64_t seed);

/* --------------------------------------------------------------- arena -- */
void *va(size_t n);              /* zeroed, 16-aligned, lives until va_reset() */
void va_reset(void);

/* ---------------------------------------------------------------- vbuf -- */
typedef struct { uint8_t *p; size_t n, cap; } vbuf;
void vb_reserve(vbuf *b, size_t extra);
void vb_put(vbuf *b, const void *src, size_t n);
void vb_u8(vbuf *b, uint8_t v);
void vb_fill(vbuf *b, uint8_t v, size_t n);
void vb_reset(vbuf *b);
void vb_free(vbuf *b);
void vb_printf(vbuf *b, const char *fmt, ...) __attribute__((format(printf, 2, 3)));
void vb_hex(vbuf *b, const uint8_t *src, size_t n, size_t maxbytes);
void vb_jsonstr(vbuf *b, const char *s);   /* appends s JSON-escaped, without quotes */
const char *vb_cstr(vbuf *b);              /* NUL-terminates (not counted in n) */

/* ---------------------------------------------------------------- tree -- */
enum { K_NONE = 0, K_OBJ, K_ARR, K_BOOL, K_INT, K_DBL, K_STR, K_BYTES };

typedef struct vnode vnode;
struct vnode {
    uint8_t   kind;
    bool      b;
    int64_t   i;
    uint64_t  dbits;
    const uint8_t *name;  uint32_t name_len;   /* set when the node is a field of an object */
    const uint8_t *data;  uint32_t data_len;   /* K_STR / K_BYTES payload */
    vnode   **kids;       uint32_t nkids, capkids;
    vnode    *parent;     uint32_t index;
    /* filled by vt_encode: byte offsets into the encoded document */
    uint32_t  off, len;          /* the value: first byte of its token .. */
    uint32_t  field_off;         /* start of the name token (== off for array elements/root) */
    uint32_t  name_off;          /* first payload byte of the name */
    uint32_t  pay_off;           /* first payload byte of a string/bytes value */
};

vnode *vt_new(int kind);
void   vt_add(vnode *parent, vnode *kid);
vnode *vt_int(int64_t v);
vnode *vt_str(int kind, const uint8_t *p, uint32_t n);  /* copies into arena */
void   vt_setname(vnode *n, const uint8_t *p, uint32_t len);
int    vt_namecmp(const uint8_t *a, size_t an, const uint8_t *b, size_t bn);
void   vt_sortfields(vnode *obj);     /* sorts by name, drops duplicates */
uint32_t vt_count(const vnode *n);
binson_type vt_btype(const vnode *n);

typedef struct {
    int root_kind;        /* K_OBJ / K_ARR */
    int max_nodes;        /* soft budget of nodes */
    int max_width;        /* max kids per container */
    int max_obj_depth;    /* object nesting levels incl. root level */
    int max_arr_depth;    /* consecutive array nesting */
    int hostile_names;    /* 0: short ascii; 1: prefix/sign/NUL families */
    int big_permille;     /* chance that a length straddles 127/128 */
    int huge_permille;    /* chance that a length straddles 32767/32768 (or up to 70000) */
    int container_permille; /* chance that a value is a container */
    int no_nul;           /* 1: names and strings never contain 0x00 */
} vgen;
void   vg_default(vgen *g, int root_kind);
vnode *vt_gen(vrng *r, const vgen *g);
vnode *vt_ladder(vrng *r, int root_kind, int obj_levels, int arr_run);  /* deep chain up to the given limits */
int64_t vt_rand_int(vrng *r);
uint64_t vt_rand_dbits(vrng *r);
uint32_t vt_rand_len(vrng *r, const vgen *g);
void   vt_rand_name(vrng *r, const vgen *g, const uint8_t **p, uint32_t *n);

/* all ordered trees with exactly n nodes over the given leaf kinds ('i' int, 's' string, 'b' bool) and {object 'O', array 'A'},
 * as prefix codes such as "OiA))"; vt_enum[n] lists them after vt_enum_build(maxn, leaves) */
typedef struct { char **v; size_t n, cap; } strlist;
extern strlist vt_enum[10];
void   vt_enum_build(int maxn, const char *leaves);
vnode *vt_from_code(const char **code, int *counter);   /* object children are named "bx","cx",.. by position */
/* independent encoder; fills the span fields of every node */
void   vt_encode(vnode *root, vbuf *out);
/* encodes a single integer / length the canonical way (used by the writer oracles) */
void   ve_int(vbuf *out, uint8_t base, int64_t v);
void   ve_strlike(vbuf *out, uint8_t base, const uint8_t *p, size_t n);
void   ve_double(vbuf *out, uint64_t bits);
/* reference text rendering (C14) */
void   vt_render(const vnode *n, vbuf *text);
/* independent decoder for documents the recogniser accepted (corpus files) */
vnode *vt_decode(const uint8_t *b, size_t n, int root_kind);
/* short human readable description, bounded length */
void   vt_describe(const vnode *n, vbuf *out, int budget);


/* ---------------------------------------------------- reference cursor -- */
#define VC_MAXF 1600
typedef struct { vnode *c; uint32_t next; int32_t cur; } vframe;
typedef struct {
    vnode *root;
    int    nf;
    bool   started, done;
    vframe f[VC_MAXF];
} vcur;
void   vc_init(vcur *c, vnode *root);
vnode *vc_current(const vcur *c);            /* value the cursor is positioned on, or NULL */
bool   vc_in_object(const vcur *c);          /* innermost entered container is an object */
int    vc_innermost(const vcur *c);          /* K_OBJ / K_ARR / K_NONE */
bool   vc_can_enter(const vcur *c, int kind);
void   vc_enter(vcur *c);
bool   vc_can_leave(const vcur *c, int kind);
void   vc_leave(vcur *c);
bool   vc_next(vcur *c);                     /* expected result of binson_parser_next */
bool   vc_field(vcur *c, const uint8_t *name, size_t len);
void   vc_consume(vcur *c);                  /* current container extracted by get_raw */
int    vc_depth(const vcur *c);              /* expected binson_parser_get_depth */
uint64_t vc_hash(const vcur *c, uint64_t h);

/* visits everything below an entered root with next/go_into/leave and compares each event; returns NULL or a description */
const char *vc_visit_all(binson_parser *p, vnode *root, const uint8_t *buf, bool thorough, vrng *r, uint64_t *events);
/* compares what the getters say with node n; returns NULL or a description (static buffer) */
const char *vc_check_getters(binson_parser *p, const vnode *n, bool in_object, const uint8_t *buf, bool thorough, vrng *r);

/* ------------------------------------------------- scripted call executor -- */
/* A script is a list of (op, parameters) fixed in advance; executing it on a parser appends every
 * observable result (return value, error_flags, get_depth, getter values, spans as offsets) to a transcript. */
enum { S_RESET = 0, S_VERIFY, S_NEXT, S_NEXT_ENSURE, S_GO_OBJ, S_GO_ARR, S_LEAVE_OBJ, S_LEAVE_ARR, S_GET_TYPE, S_GET_NAME, S_GET_STRING, S_GET_BYTES,
       S_GET_RAW, S_GET_INT, S_GET_BOOL, S_GET_DOUBLE, S_STR_EQ, S_DEPTH, S_TO_STRING, S_FIELD, S_FIELD_LEN, S_FIELD_ENSURE, S_FIELD_ENSURE_LEN, S_TO_WRITER, S_NOPS };
typedef struct { uint8_t op; uint8_t type; uint16_t cap; uint8_t name[12]; uint8_t nlen; } vsop;
typedef struct { int stack[64]; int sp; } vsctx;
extern const char *vs_opname[];
void vs_random(vrng *r, vsop *ops, int n, const uint8_t *doc, size_t doclen, bool sensible_root);
void vs_exec(binson_parser *p, const uint8_t *buf, size_t n, vsctx *cx, const vsop *op, vbuf *transcript);
void vs_describe(const vsop *ops, int n, vbuf *out);

/* ---------------------------------------------------------- recogniser -- */
enum { RE_OK = 0, RE_RANGE, RE_FORMAT, RE_DEPTH_OBJ, RE_DEPTH_ARR };
typedef struct {
    bool   ok;
    int    err;       /* RE_* of the first obstacle */
    size_t off;       /* offset of the token at which it was met */
    bool   init_fail; /* rejected by the size / first-byte / last-byte precheck */
} vrec;
vrec vrecognise(const uint8_t *b, size_t n, int root_kind, int max_depth);

/* ------------------------------------------------------------ mutators -- */
void vm_mutate(vrng *r, vbuf *doc);            /* one random edit */
void vm_soup(vrng *r, vbuf *doc, int root_kind, int ntok);  /* token soup */

/* -------------------------------------------------------------- corpus -- */
typedef struct { uint8_t *p; size_t n; bool valid; char name[48]; } vcorp;
extern vcorp *vcorpus; extern size_t vncorpus;
void vcorpus_load(const char *repo_root);

/* ------------------------------------------------------ guarded memory -- */
uint8_t *vg_exact(size_t n);          /* block whose first byte past n is poisoned/unmapped for the sanitizer */
void     vg_free(uint8_t *p, size_t n);

/* ------------------------------------------------------ worker runtime -- */
typedef struct {
    uint64_t seed, wid, nworkers, cases, start;
    int64_t  onecase;           /* >=0: run exactly this case, verbosely */
    const char *mode;
    const char *outdir;
    const char *repo;
    int verbose;
    int tier;                   /* 0 quick, 1 thorough */
    int maxviol;
    const char *opt;            /* free-form extra option string */
} vargs;
extern vargs VA;
void vw_init(int argc, char **argv);
int  vw_capture_stdout(void);                     /* stdout -> an anonymous file; returns its fd */
void vw_mute_stdout(void);                        /* library printf output -> /dev/null until vw_finish */
void vw_unmute_stdout(void);
void vw_inflight(const char *fmt, ...) __attribute__((format(printf, 1, 2)));
void vw_watchdog(const char *what, int cpu_seconds); /* (re)arms the CPU-time watchdog; vw_case arms 90 s per case */
void vw_case(uint64_t caseno);                    /* marks the start of a case */
void vw_nontrivial(uint64_t hash);                /* counts a non-trivial case, remembers its hash */
bool vw_want_sample(void);
void vw_sample(const char *text);
void vw_count(const char *name, uint64_t add);
void vw_max(const char *name, uint64_t v);
/* records a violation; sig is a short stable signature, the rest a description */
void vw_violation(const char *sig, const char *fmt, ...) __attribute__((format(printf, 2, 3)));
bool vw_stop(void);                               /* too many violations: stop exploring */
int  vw_finish(void);
uint64_t vw_cases_done(void);
void vw_add_evals(uint64_t n);                    /* executions that were not announced one by one through vw_case */

const char *vkind_name(int k);
const char *vbtype_name(int t);
const char *verr_name(int e);

#ifdef __cplusplus
}
#endif
#endif
