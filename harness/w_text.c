/* w_text.c — binson_parser_to_string / binson_parser_print.
 *   c13  : size protocol at every capacity 0..need+3 into destinations of exactly that capacity
 *   c14r : text == reference rendering, print output == text (random valid documents)
 *   c14x : the same for every tree with <= N nodes over {int, bool, object, array} (separator placement)
 */
#define _GNU_SOURCE
#include "vh.h"
#include <unistd.h>

static int capfd = -1;

static int levels(const vnode *n, int od)
{
    int here = od + (n->kind == K_OBJ ? 1 : 0), best = here;
    for (uint32_t i = 0; i < n->nkids; i++) { int d = levels(n->kids[i], here); if (d > best) best = d; }
    return best;
}

static vnode *text_tree(vrng *r, bool small)
{
    int root = vrn(r, 3) ? K_OBJ : K_ARR;
    vgen g; vg_default(&g, root);
    g.max_nodes = 2 + (int)vrn(r, small ? 14 : (vrn(r, 5) ? 24 : 120));
    g.container_permille = 400 + (int)vrn(r, 300);
    g.big_permille = small ? 40 : 120; g.huge_permille = 0;
    g.max_obj_depth = 10; g.max_arr_depth = 6;
    if (vrn(r, 30) == 0) return vt_ladder(r, root, 1 + (int)vrn(r, 10), 1 + (int)vrn(r, 255));
    return vt_gen(r, &g);
}

typedef struct { binson_parser *p; binson_state *st; uint8_t *buf; size_t n; int depth; } tctx;
static void t_open(tctx *c, const vbuf *d, int depth)
{
    c->n = d->n; c->buf = vg_exact(d->n); if (d->n) memcpy(c->buf, d->p, d->n);
    c->depth = depth < 1 ? 1 : depth;
    c->p = (binson_parser *)malloc(sizeof(binson_parser)); c->st = (binson_state *)malloc(sizeof(binson_state) * (size_t)c->depth);
    memset(c->p, 0x6B, sizeof(binson_parser)); memset(c->st, 0xB6, sizeof(binson_state) * (size_t)c->depth);
    c->p->state = c->st; c->p->max_depth = (uint_fast8_t)c->depth;
}
static void t_close(tctx *c) { vg_free(c->buf, c->n); free(c->p); free(c->st); }

static void viol(const char *sig, const char *what, const vbuf *d, int root, int depth)
{
    vbuf o; memset(&o, 0, sizeof o);
    vb_printf(&o, "%s\n%s-rooted, max_depth=%d, %zu bytes: ", what, vkind_name(root), depth, d->n);
    vb_hex(&o, d->p, d->n, 400);
    vw_violation(sig, "%s", vb_cstr(&o));
    vb_free(&o);
}

/* --------------------------------------------------------------------- C13 -- */
static void case_c13(vrng *r)
{
    vbuf d; memset(&d, 0, sizeof d);
    vnode *t = text_tree(r, vrn(r, 4) != 0);
    bool hugedoc = vrn(r, VA.tier ? 120 : 300) == 0;
    if (hugedoc) {
        /* a bytes or string value at the 32767/65535 boundaries: 64..140 KB of text, probed at few capacities */
        static const uint32_t HL[] = { 32766, 32767, 32768, 65535, 65536, 70000 };
        uint32_t len = HL[vrn(r, 6)];
        uint8_t *pay = (uint8_t *)va(len + 1);
        for (uint32_t i = 0; i < len; i++) pay[i] = (uint8_t)(0x21 + (i * 7) % 90);
        vnode *big = vt_str(vrn(r, 3) ? K_BYTES : K_STR, pay, len);
        t = vt_new(vrn(r, 2) ? K_OBJ : K_ARR);
        vnode *before = vt_int(5), *after = vt_int(-6);
        if (t->kind == K_OBJ) { vt_setname(before, (const uint8_t *)"a", 1); vt_setname(big, (const uint8_t *)"b", 1); vt_setname(after, (const uint8_t *)"c", 1); }
        vt_add(t, before); vt_add(t, big); vt_add(t, after);
        vw_count("huge_value_documents", 1);
    }
    int root = t->kind;
    vt_encode(t, &d);
    int depth = levels(t, root == K_ARR ? 1 : 0) + (int)vrn(r, 2);
    bool mutated = vrn(r, 5) == 0;
    if (mutated) { int nm = 1 + (int)vrn(r, 2); for (int i = 0; i < nm; i++) vm_mutate(r, &d); }
    tctx c; t_open(&c, &d, depth);
    bool init = root == K_OBJ ? binson_parser_init_object(c.p, c.buf, c.n) : binson_parser_init_array(c.p, c.buf, c.n);
    bool valid = init && binson_parser_verify(c.p);
    char what[400];
    uint64_t runs = 0;
    if (!init) { vw_count("init_rejected", 1); goto done; }
    /* prior history on the same parser object: to_string rewinds by itself, so neither an abandoned walk nor a latched error may matter */
    {
        uint32_t h = vrn(r, 4);
        if (h == 1 || h == 2) {
            bool b = root == K_OBJ ? binson_parser_go_into_object(c.p) : binson_parser_go_into_array(c.p);
            for (uint32_t i = 0; b && i < 1 + vrn(r, 6); i++) {
                if (!binson_parser_next(c.p)) break;
                binson_type ty = binson_parser_get_type(c.p);
                if (ty == BINSON_TYPE_OBJECT && vrn(r, 2)) binson_parser_go_into_object(c.p);
                else if (ty == BINSON_TYPE_ARRAY && vrn(r, 2)) binson_parser_go_into_array(c.p);
            }
            vw_count("history_abandoned_walk", 1);
        }
        if (h == 2 || h == 3) {
            if (vrn(r, 2)) binson_parser_next_ensure(c.p, (binson_type)77); else binson_parser_field_with_length(c.p, NULL, 1);
            if (c.p->error_flags != BINSON_ERROR_NONE) vw_count("history_latched_error", 1);
        }
    }
    /* NULL query with garbage in *size */
    size_t need = (size_t)vr64(r);
    bool q = binson_parser_to_string(c.p, NULL, &need, vrn(r, 2));
    if (q) { viol("c13:null-query-true", "to_string(NULL buffer) returned true", &d, root, depth); goto done; }
    if (!valid) {
        /* invalid document: false at every capacity, nothing stored at or beyond it */
        vw_count("invalid_documents", 1);
        size_t maxcap = need < 3000 ? need + 3 : 3000;
        for (size_t cap = 0; cap <= maxcap; cap += (cap < 64 ? 1 : 7)) {
            char *dst = (char *)malloc(cap + 64); memset(dst, 0xEE, cap + 64);
            size_t sz = cap;
            bool ret = binson_parser_to_string(c.p, dst, &sz, false);
            runs++;
            bool over = false; for (int k = 0; k < 64; k++) if ((uint8_t)dst[cap + (size_t)k] != 0xEE) over = true;
            free(dst);
            if (ret) { snprintf(what, sizeof what, "to_string returned true (capacity %zu) on a document verify rejects", cap); viol("c13:true-on-invalid", what, &d, root, depth); break; }
            if (over) { snprintf(what, sizeof what, "to_string stored beyond capacity %zu on an invalid document", cap); viol("c13:overrun-invalid", what, &d, root, depth); break; }
        }
        goto done;
    }
    vw_count("valid_documents", 1);
    if (need == 0) { viol("c13:need-zero", "the NULL query reported 0 required bytes", &d, root, depth); goto done; }
    {
        char *first = NULL;
        size_t step_from = 700, step_to = need > 700 ? need - 700 : 0;
        for (size_t cap = 0; cap <= need + 3; cap++) {
            if (need > 4096 && cap > step_from && cap < step_to && cap % 61 != 0) continue;
            if (need > 60000 && !(cap < 40 || cap + 6 >= need || cap % 9973 == 17)) continue;     /* huge texts: both ends and a sparse stride */
            bool canary = cap == 0 || ((cap + VA.seed) % 5 == 0);
            char *dst = canary ? (char *)malloc(cap + 64) : (char *)vg_exact(cap);
            if (canary) memset(dst + cap, 0xEE, 64);
            memset(dst, 0xA7, cap);
            size_t sz = cap;
            bool ret = binson_parser_to_string(c.p, dst, &sz, (cap & 1) != 0);
            runs++;
            const char *sig = NULL;
            if (canary) for (int k = 0; k < 64 && !sig; k++) if ((uint8_t)dst[cap + (size_t)k] != 0xEE) { sig = "c13:overrun"; snprintf(what, sizeof what, "capacity %zu (need %zu): byte %d past the capacity was overwritten", cap, need, k); }
            if (!sig && cap < need) {
                if (ret) { sig = "c13:true-too-small"; snprintf(what, sizeof what, "capacity %zu < required %zu but to_string returned true", cap, need); }
                else if (sz != need) { sig = "c13:size-varies"; snprintf(what, sizeof what, "capacity %zu: *size=%zu, the NULL query said %zu", cap, sz, need); }
            } else if (!sig) {
                if (!ret) { sig = "c13:false-large-enough"; snprintf(what, sizeof what, "capacity %zu >= required %zu but to_string returned false (*size=%zu)", cap, need, sz); }
                else if (sz != need - 1) { sig = "c13:length"; snprintf(what, sizeof what, "capacity %zu: success with *size=%zu, expected text length %zu", cap, sz, need - 1); }
                else if (dst[need - 1] != 0 || strlen(dst) != need - 1) { sig = "c13:terminator"; snprintf(what, sizeof what, "capacity %zu: text is not NUL-terminated at offset %zu (strlen %zu)", cap, need - 1, strnlen(dst, cap)); }
                else {
                    for (size_t k = need; k < cap && !sig; k++) if ((uint8_t)dst[k] != 0xA7) { sig = "c13:stores-past-text"; snprintf(what, sizeof what, "capacity %zu: byte %zu beyond text+NUL (%zu) was modified", cap, k, need); }
                    if (!sig) { if (!first) first = strdup(dst); else if (strcmp(first, dst) != 0) { sig = "c13:text-varies"; snprintf(what, sizeof what, "capacity %zu: the text differs from the text produced at capacity %zu", cap, need); } }
                }
            }
            if (canary) free(dst); else vg_free((uint8_t *)dst, cap);
            if (sig) { viol(sig, what, &d, root, depth); break; }
        }
        free(first);
        vw_max("max_text_bytes", need);
    }
done:
    vw_count("to_string_calls", runs);
    if (d.n >= 3) vw_nontrivial(vh_hash(d.p, d.n, (uint64_t)depth));
    if (vw_want_sample() && valid && d.n < 60) {
        vbuf s; memset(&s, 0, sizeof s); vb_hex(&s, d.p, d.n, 60); vb_printf(&s, " : NULL query -> %zu, every capacity 0..%zu checked (%llu calls)", need, need + 3, (unsigned long long)runs);
        vw_sample(vb_cstr(&s)); vb_free(&s);
    }
    t_close(&c); vb_free(&d);
}

/* --------------------------------------------------------------------- C14 -- */
static void check_render(vnode *t, const char *origin)
{
    vbuf d, ref; memset(&d, 0, sizeof d); memset(&ref, 0, sizeof ref);
    int root = t->kind;
    vt_encode(t, &d);
    vt_render(t, &ref);
    int depth = levels(t, root == K_ARR ? 1 : 0);
    tctx c; t_open(&c, &d, depth);
    char what[300];
    bool init = root == K_OBJ ? binson_parser_init_object(c.p, c.buf, c.n) : binson_parser_init_array(c.p, c.buf, c.n);
    static uint64_t hist;
    hist++;
    if (init && hist % 4 == 1) {
        /* history on the same parser: abandoned walk and/or latched error (to_string / print rewind by themselves) */
        bool b = root == K_OBJ ? binson_parser_go_into_object(c.p) : binson_parser_go_into_array(c.p);
        for (int i = 0; b && i < 4; i++) { if (!binson_parser_next(c.p)) break; if (binson_parser_get_type(c.p) == BINSON_TYPE_ARRAY) binson_parser_go_into_array(c.p); else if (binson_parser_get_type(c.p) == BINSON_TYPE_OBJECT) binson_parser_go_into_object(c.p); }
        if (hist % 8 == 1) binson_parser_next_ensure(c.p, (binson_type)77);
        vw_count("renders_after_history", 1);
    }
    if (init && hist % 4 == 2) {
        /* another parser object rendered something that failed half way (invalid bytes, too small buffer) just before */
        static const uint8_t bad1[] = { 0x40, 0x14, 0x01, 'a', 0x42, 0x10, 0x01, 0x00, 0x43, 0x41 }, bad2[] = { 0x42, 0x42, 0x40, 0x41, 0x44, 0x47, 0x43, 0x43 };
        binson_state st2[4]; binson_parser p2; char tmp[8]; size_t tsz = sizeof tmp;
        memset(&p2, 0, sizeof p2); memset(st2, 0, sizeof st2); p2.state = st2; p2.max_depth = 4;
        if (hist % 8 == 2) { if (binson_parser_init_object(&p2, bad1, sizeof bad1)) (void)binson_parser_to_string(&p2, tmp, &tsz, false); }
        else { if (binson_parser_init_array(&p2, bad2, sizeof bad2)) { (void)binson_parser_to_string(&p2, tmp, &tsz, false); (void)binson_parser_print(&p2); fflush(stdout); } }
        vw_count("renders_after_failed_render_elsewhere", 1);
    }
    size_t cap = ref.n + 64, sz = cap;
    char *dst = (char *)malloc(cap);
    memset(dst, 0, cap);
    bool ret = init && binson_parser_to_string(c.p, dst, &sz, false);
    const char *refs = vb_cstr(&ref);
    if (!ret) { snprintf(what, sizeof what, "to_string failed on a valid document with ample capacity %zu (*size=%zu, reference text has %zu bytes)", cap, sz, ref.n); viol("c14:to_string-failed", what, &d, root, depth); }
    else if (sz != ref.n || memcmp(dst, refs, ref.n) != 0) {
        size_t at = 0; while (at < sz && at < ref.n && dst[at] == refs[at]) at++;
        vbuf o; memset(&o, 0, sizeof o);
        vb_printf(&o, "to_string text differs from the reference rendering at offset %zu\n got: %.300s\n ref: %.300s\n", at, dst, refs);
        /* classify the first difference for the signature */
        char sig[100];
        char g = at < sz ? dst[at] : '$', e = at < ref.n ? refs[at] : '$';
        snprintf(sig, sizeof sig, "c14:text:got-%c-expected-%c", (g >= 0x21 && g < 0x7f) ? g : '?', (e >= 0x21 && e < 0x7f) ? e : '?');
        vb_printf(&o, "%s-rooted %zu bytes (%s): ", vkind_name(root), d.n, origin); vb_hex(&o, d.p, d.n, 300);
        vw_violation(sig, "%s", vb_cstr(&o)); vb_free(&o);
    } else {
        /* print must write exactly the same bytes to stdout */
        if (ftruncate(capfd, 0) != 0 || lseek(capfd, 0, SEEK_SET) < 0) { fprintf(stderr, "HARNESS: capture file\n"); exit(2); }
        bool pr = binson_parser_print(c.p);
        fflush(stdout);
        off_t len = lseek(capfd, 0, SEEK_END);
        char *out = (char *)malloc((size_t)len + 1);
        ssize_t got = pread(capfd, out, (size_t)len, 0);
        if (got != len) { fprintf(stderr, "HARNESS: capture read\n"); exit(2); }
        if (!pr) viol("c14:print-false", "binson_parser_print returned false on a valid document", &d, root, depth);
        else if ((size_t)len != ref.n || memcmp(out, refs, ref.n) != 0) {
            vbuf o; memset(&o, 0, sizeof o);
            out[len] = 0;
            vb_printf(&o, "binson_parser_print wrote %lld bytes that differ from the to_string text (%zu bytes)\n stdout: %.300s\n text:   %.300s\n", (long long)len, ref.n, out, refs);
            vb_hex(&o, d.p, d.n, 300);
            vw_violation("c14:print-differs", "%s", vb_cstr(&o)); vb_free(&o);
        }
        free(out);
        vw_count("print_outputs_compared", 1);
        /* whenever to_string reports success the stored text must be the full rendering - also when the buffer is tight */
        for (size_t tight = ref.n; tight <= ref.n + 1; tight++) {
            char *tb = (char *)malloc(tight + 1); memset(tb, 0x7E, tight + 1);
            size_t tsz = tight;
            if (binson_parser_to_string(c.p, tb, &tsz, true) && (tsz != ref.n || strnlen(tb, tight) != ref.n || memcmp(tb, refs, ref.n) != 0)) {
                snprintf(what, sizeof what, "to_string returned true with capacity %zu (text length %zu) but stored a text of %zu characters", tight, ref.n, strnlen(tb, tight));
                viol("c14:success-with-truncated-text", what, &d, root, depth);
            }
            free(tb);
        }
    }
    vw_count("texts_compared", 1);
    vw_max("max_text_bytes", ref.n);
    vw_nontrivial(vh_hash(d.p, d.n, 14));
    if (vw_want_sample() && ref.n > 8 && ref.n < 120 && ret) { vbuf s; memset(&s, 0, sizeof s); vb_hex(&s, d.p, d.n, 50); vb_printf(&s, " -> %s", refs); vw_sample(vb_cstr(&s)); vb_free(&s); }
    free(dst);
    t_close(&c); vb_free(&d); vb_free(&ref);
}

int main(int argc, char **argv)
{
    vw_init(argc, argv);
    const char *m = VA.mode;
    vrng r;
    if (m[2] == '4') { capfd = vw_capture_stdout(); if (capfd < 0) { fprintf(stderr, "HARNESS: memfd\n"); return 2; } }
    if (!strcmp(m, "c14x")) {
        int maxn = atoi(VA.opt); if (maxn < 2) maxn = 6; if (maxn > 8) maxn = 8;
        vt_enum_build(maxn, "ib");
        uint64_t idx = 0;
        for (int n = 1; n <= maxn && !vw_stop(); n++)
            for (size_t i = 0; i < vt_enum[n].n && !vw_stop(); i++) {
                const char *code = vt_enum[n].v[i];
                if (code[0] != 'O' && code[0] != 'A') continue;
                uint64_t my = idx++;
                if (my % VA.nworkers != VA.wid) continue;
                uint64_t caseno = my / VA.nworkers;
                if (caseno < VA.start) continue;
                if (VA.onecase >= 0 && caseno != (uint64_t)VA.onecase) continue;
                vw_case(caseno);
                va_reset();
                const char *s = code; int counter = 0;
                vnode *t = vt_from_code(&s, &counter);
                check_render(t, code);
            }
        return vw_finish();
    }
    for (uint64_t k = VA.start; k < VA.start + VA.cases && !vw_stop(); k++) {
        vw_case(k);
        vr_seed(&r, VA.seed, VA.wid, k);
        va_reset();
        if (!strcmp(m, "c13")) case_c13(&r);
        else if (!strcmp(m, "c14r")) {
            if (vrn(&r, VA.tier ? 150 : 400) == 0) {
                /* a string value and a field name at the 32767/32768 and 65535/65536 boundaries: quoted verbatim, not clamped */
                static const uint32_t HL[] = { 32767, 32768, 40000, 65535, 65536, 70000 };
                uint32_t l1 = HL[vrn(&r, 6)], l2 = HL[vrn(&r, 6)];
                uint8_t *pay = (uint8_t *)va(l1 + 1), *nm = (uint8_t *)va(l2 + 1);
                for (uint32_t i = 0; i < l1; i++) pay[i] = (uint8_t)('a' + (i * 5) % 26);
                for (uint32_t i = 0; i < l2; i++) nm[i] = (uint8_t)('A' + (i * 3) % 26);
                vnode *o = vt_new(K_OBJ), *s = vt_str(K_STR, pay, l1), *k2 = vt_int(7), *k0 = vt_int(-1);
                vt_setname(k0, (const uint8_t *)"0", 1); vt_setname(s, (const uint8_t *)"a", 1); vt_setname(k2, nm, l2);
                vt_add(o, k0); vt_add(o, s); vt_add(o, k2); vt_sortfields(o);
                vw_count("huge_text_documents", 1);
                check_render(o, "huge string value and field name");
            } else check_render(text_tree(&r, vrn(&r, 3) != 0), "random tree");
        }
        else { fprintf(stderr, "HARNESS: unknown mode %s\n", m); return 2; }
    }
    return vw_finish();
}
