/* hunion — counts the distinct 64-bit values in the given files. */
#include <stdio.h>
#include <stdlib.h>
#include <stdint.h>
static int cmp(const void *a, const void *b) { uint64_t x = *(const uint64_t *)a, y = *(const uint64_t *)b; return x < y ? -1 : x > y; }
int main(int argc, char **argv)
{
    size_t cap = 1 << 20, n = 0;
    uint64_t *v = malloc(cap * 8);
    for (int i = 1; i < argc; i++) {
        FILE *f = fopen(argv[i], "rb");
        if (!f) continue;
        for (;;) {
            if (n + 65536 > cap) { cap *= 2; v = realloc(v, cap * 8); if (!v) return 2; }
            size_t k = fread(v + n, 8, 65536, f);
            n += k;
            if (k < 65536) break;
        }
        fclose(f);
    }
    qsort(v, n, 8, cmp);
    size_t d = 0;
    for (size_t i = 0; i < n; i++) if (i == 0 || v[i] != v[i - 1]) d++;
    printf("%zu\n", d);
    return 0;
}
