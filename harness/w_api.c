/* w_api.c — hostile API sequences over arbitrary bytes.
 *   mode c01 : memory monitors only (sanitizer, returned-span bounds, input immutability)
 *   mode c16 : the same workload with the public token callback installed as a work counter:
 *              per-call token bound, live-lock tripwire, cursor monotonicity
 * No functional expectations are checked here.
 */
#define _GNU_SOURCE
#include "vh.h"
#include <setjmp.h>

enum {
    A_INIT_OBJ = 0, A_INIT_ARR, A_RESET, A_VERIFY, A_NEXT, A_NEXT_ENSURE, A_GO_OBJ, A_GO_ARR, A_LEAVE_OBJ, A_LEAVE_ARR,
    A_GET_TYPE, A_GET_NAME, A_GET_STRING, A_GET_BYTES, A_GET_RAW, A_GET_INT, A_GET_BOOL, A_GET_DOUBLE, A_STR_EQ, A_DEPTH,
    A_TO_STRING, A_TO_STRING_NULL, A_PRINT, A_FIELD, A_FIELD_LEN, A_FIELD_ENSURE, A_FIELD_ENSURE_LEN, A_TO_WRITER, A_NCALLS
};
static const char *ANAME[] = { "init_object", "init_array", "reset", "verify", "next", "next_ensure", "go_into_object", "go_into_array", "leave_object", "leave_array",
    "get_type", "get_name", "get_string_bbuf", "get_bytes_bbuf", "get_raw", "get_integer", "get_boolean", "get_double", "string_equals", "get_depth",
    "to_string", "to_string(NULL)", "print", "field", "field_with_length", "field_ensure", "field_ensure_with_length", "to_writer" };

static bool mode16, no_retarget;
static uint64_t callcount[A_NCALLS];

/* ---- work monitor (c16) ---- */
static jmp_buf tripjmp;
static uint64_t cb_count, cb_limit; static size_t cb_maxused;
static void work_cb(binson_parser *p, uint16_t next_state, void *ctx)
{
    (void)next_state; (void)ctx;
    cb_count++;
    if (p->buffer_used > cb_maxused) cb_maxused = p->buffer_used;
    if (cb_count > cb_limit) longjmp(tripjmp, 1);
}

typedef struct {
    uint8_t *buf; size_t n;          /* current input block (exact size) */
    uint8_t *pristine;
    binson_parser *p; binson_state *st; int max_depth;
    int stack[64]; int sp;           /* harness's own record of successful enter/leave calls */
    bool inited_ok;
    vbuf trace;
    vbuf doc0;
} actx;

static void fail(actx *c, const char *sig, const char *what)
{
    vbuf d; memset(&d, 0, sizeof d);
    vb_printf(&d, "%s\ninput (%zu bytes): ", what, c->n);
    if (c->pristine) vb_hex(&d, c->pristine, c->n, 300);
    vb_printf(&d, "\nmax_depth=%d calls: %s", c->max_depth, c->trace.n ? vb_cstr(&c->trace) : "");
    vw_violation(sig, "%s", vb_cstr(&d));
    vb_free(&d);
}

static bool span_ok(actx *c, const uint8_t *ptr, size_t size)
{
    if (ptr == NULL) return false;
    uintptr_t b = (uintptr_t)c->buf, p = (uintptr_t)ptr;
    return p >= b && p <= b + c->n && size <= c->n - (size_t)(p - b);
}

static bool lookup_in_array;     /* the lookup just allowed is issued inside an array (C16 mode only) */
static bool lookups_allowed(actx *c)
{
    binson_parser *p = c->p;
    lookup_in_array = false;
    if (c->sp == 0) return false;
    if (p->depth < 1 || p->depth > p->max_depth) return false;
    binson_state *s = &p->state[p->depth - 1];
    if (mode16 && c->inited_ok && (s->flags & 0x000CU) != 0 && s->current_name.bptr != NULL) {
        /* C16 speaks about every call sequence: a lookup issued inside an array that is a field value must return too
         * (outside C01's assumption; allowed here only where the level has a field name, so no NULL name is compared) */
        lookup_in_array = true;
        return true;
    }
    if (c->stack[c->sp - 1] != K_OBJ) return false;
    return s->array_depth == 0 && (s->flags & 0x0003U) != 0;
}

static void set_input(actx *c, const uint8_t *src, size_t n)
{
    if (c->buf || c->pristine) {
        if (c->pristine && memcmp(c->buf, c->pristine, c->n) != 0) fail(c, "c01:input-modified", "the parser wrote into the input buffer");
        vg_free(c->buf, c->n); free(c->pristine);
    }
    c->n = n;
    c->buf = vg_exact(n);
    c->pristine = (uint8_t *)malloc(n + 1);
    if (n) { memcpy(c->buf, src, n); memcpy(c->pristine, src, n); }
}

static void do_call(actx *c, vrng *r, int a)
{
    binson_parser *p = c->p;
    static const binson_type types[] = { BINSON_TYPE_NONE, BINSON_TYPE_OBJECT, BINSON_TYPE_ARRAY, BINSON_TYPE_BOOLEAN, BINSON_TYPE_INTEGER, BINSON_TYPE_DOUBLE, BINSON_TYPE_STRING, BINSON_TYPE_BYTES, BINSON_TYPE_OBJECT_END, (binson_type)77 };
    bool ret = false;
    bbuf *bb;
    callcount[a]++;
    if (VA.verbose >= 2) fprintf(stderr, "  call %s (input %zu bytes, error_flags before: %s)\n", ANAME[a], c->n, verr_name((int)c->p->error_flags));
    vb_printf(&c->trace, "%s", ANAME[a]);
    size_t used_before = p->buffer_used;
    bool resetting = (a == A_INIT_OBJ || a == A_INIT_ARR || a == A_RESET || a == A_VERIFY || a == A_TO_STRING || a == A_TO_STRING_NULL || a == A_PRINT);
    if (mode16) { char wn[64]; snprintf(wn, sizeof wn, "call:%s", ANAME[a]); vw_watchdog(wn, 8); }
    cb_count = 0; cb_maxused = resetting ? 0 : used_before;
    cb_limit = 2 * (uint64_t)c->n + 64;
    if (mode16 && setjmp(tripjmp)) {
        char what[200]; snprintf(what, sizeof what, "%s did not return within %llu token callbacks on a %zu-byte buffer (live-lock tripwire)", ANAME[a], (unsigned long long)cb_limit, c->n);
        char sig[100]; snprintf(sig, sizeof sig, "c16:livelock:%s", ANAME[a]);
        fail(c, sig, what);
        c->inited_ok = false;
        /* the parser is in the middle of a call: re-initialise before going on */
        binson_parser_init_object(p, c->buf, c->n);
        p->cb = work_cb;
        return;
    }
    switch (a) {
    case A_INIT_OBJ: case A_INIT_ARR: {
        /* re-target: same bytes, a truncation of them, or a tiny buffer */
        uint32_t k = vrn(r, 10);
        if (no_retarget) k = 9;
        if (k < 3 && c->doc0.n) {
            size_t nn = k == 0 ? c->doc0.n : vrn(r, (uint32_t)c->doc0.n + 1);
            if (k == 2 && nn >= 2) { uint8_t *t = (uint8_t *)malloc(nn); memcpy(t, c->doc0.p, nn); t[nn - 1] = c->doc0.p[c->doc0.n - 1]; set_input(c, t, nn); free(t); }
            else set_input(c, c->doc0.p, nn);
        } else if (k == 3) { uint8_t t[2] = { (uint8_t)(0x40 + vrn(r, 4)), (uint8_t)(0x40 + vrn(r, 4)) }; set_input(c, t, vrn(r, 3)); }
        else if (k == 4 && c->n > 2) {
            /* the next message arrived in the very same buffer: content changes in place, same address and length */
            size_t at = 1 + vrn(r, (uint32_t)c->n - 2);
            c->buf[at] = c->pristine[at] = (uint8_t)(c->buf[at] ^ (1u << vrn(r, 8)));
        }
        ret = (a == A_INIT_OBJ) ? binson_parser_init_object(p, c->buf, c->n) : binson_parser_init_array(p, c->buf, c->n);
        c->sp = 0; c->inited_ok = ret;
        vb_printf(&c->trace, "[%zu bytes]", c->n);
        if (mode16) p->cb = work_cb;
        break;
    }
    case A_RESET: ret = binson_parser_reset(p); c->sp = 0; break;
    case A_VERIFY: ret = binson_parser_verify(p); c->sp = 0; break;
    case A_NEXT: ret = binson_parser_next(p); break;
    case A_NEXT_ENSURE: ret = binson_parser_next_ensure(p, types[vrn(r, 10)]); break;
    case A_GO_OBJ: ret = binson_parser_go_into_object(p); if (ret && c->sp < 64) c->stack[c->sp++] = K_OBJ; break;
    case A_GO_ARR: ret = binson_parser_go_into_array(p); if (ret && c->sp < 64) c->stack[c->sp++] = K_ARR; break;
    case A_LEAVE_OBJ: ret = binson_parser_leave_object(p); if (ret) { if (c->sp && c->stack[c->sp - 1] == K_OBJ) c->sp--; else c->sp = 0; } break;
    case A_LEAVE_ARR: ret = binson_parser_leave_array(p); if (ret) { if (c->sp && c->stack[c->sp - 1] == K_ARR) c->sp--; else c->sp = 0; } break;
    case A_GET_TYPE: (void)binson_parser_get_type(p); break;
    case A_GET_NAME:
        bb = binson_parser_get_name(p);
        if (bb && !span_ok(c, bb->bptr, bb->bsize)) fail(c, "c01:span:get_name", "get_name returned a span outside the input buffer");
        break;
    case A_GET_STRING:
        bb = binson_parser_get_string_bbuf(p);
        if (bb && !span_ok(c, bb->bptr, bb->bsize)) fail(c, "c01:span:get_string_bbuf", "get_string_bbuf returned a span outside the input buffer");
        break;
    case A_GET_BYTES:
        bb = binson_parser_get_bytes_bbuf(p);
        if (bb && !span_ok(c, bb->bptr, bb->bsize)) fail(c, "c01:span:get_bytes_bbuf", "get_bytes_bbuf returned a span outside the input buffer");
        break;
    case A_GET_RAW: {
        bbuf raw; raw.bptr = NULL; raw.bsize = 0;
        ret = binson_parser_get_raw(p, &raw);
        if (ret && !span_ok(c, raw.bptr, raw.bsize)) fail(c, "c01:span:get_raw", "get_raw returned a span outside the input buffer");
        break;
    }
    case A_GET_INT: (void)binson_parser_get_integer(p); break;
    case A_GET_BOOL: (void)binson_parser_get_boolean(p); break;
    case A_GET_DOUBLE: (void)binson_parser_get_double(p); break;
    case A_STR_EQ: {
        uint32_t l = vrn(r, 6);
        char *s = (char *)vg_exact(l + 1);
        for (uint32_t i = 0; i < l; i++) s[i] = (char)('a' + vrn(r, 3));
        s[l] = 0;
        ret = binson_parser_string_equals(p, s);
        vg_free((uint8_t *)s, l + 1);
        break;
    }
    case A_DEPTH: (void)binson_parser_get_depth(p); break;
    case A_TO_STRING: {
        size_t cap = vrn(r, 4) ? vrn(r, 80) : vrn(r, 3000);
        char *dst = (char *)vg_exact(cap);
        size_t sz = cap;
        ret = binson_parser_to_string(p, dst, &sz, vrn(r, 2));
        vg_free((uint8_t *)dst, cap);
        c->sp = 0;
        if (mode16) p->cb = work_cb;
        break;
    }
    case A_TO_STRING_NULL: {
        size_t sz = (size_t)vr64(r);
        ret = binson_parser_to_string(p, NULL, &sz, false);
        c->sp = 0;
        if (mode16) p->cb = work_cb;
        break;
    }
    case A_PRINT: ret = binson_parser_print(p); c->sp = 0; if (mode16) p->cb = work_cb; break;
    case A_FIELD: case A_FIELD_LEN: case A_FIELD_ENSURE: case A_FIELD_ENSURE_LEN: {
        if (!lookups_allowed(c)) { vb_printf(&c->trace, "(skipped) "); callcount[a]--; return; }
        vgen g; vg_default(&g, K_OBJ);
        if (a == A_FIELD || a == A_FIELD_ENSURE) g.no_nul = 1;
        const uint8_t *np; uint32_t nl;
        vt_rand_name(r, &g, &np, &nl);
        if (vrn(r, 3) == 0 && c->n > 4) {       /* a name taken from the document itself */
            size_t at = vrn(r, (uint32_t)c->n - 2);
            if ((c->pristine[at] == 0x14) && at + 2 + c->pristine[at + 1] <= c->n && c->pristine[at + 1] < 0x80) { np = c->pristine + at + 2; nl = c->pristine[at + 1]; }
            if ((a == A_FIELD || a == A_FIELD_ENSURE) && memchr(np, 0, nl)) nl = 0;
        }
        uint8_t *nm = vg_exact(nl + 1);
        if (nl) memcpy(nm, np, nl);
        nm[nl] = 0;
        binson_type t = types[vrn(r, 8)];
        if (a == A_FIELD) ret = binson_parser_field(p, (const char *)nm);
        else if (a == A_FIELD_LEN) ret = binson_parser_field_with_length(p, (const char *)nm, nl);
        else if (a == A_FIELD_ENSURE) ret = binson_parser_field_ensure(p, (const char *)nm, t);
        else ret = binson_parser_field_ensure_with_length(p, (const char *)nm, nl, t);
        vg_free(nm, nl + 1);
        break;
    }
    case A_TO_WRITER: {
        size_t cap = vrn(r, 200);
        uint8_t *dst = vg_exact(cap);
        binson_writer w;
        binson_writer_init(&w, dst, cap);
        ret = binson_parser_to_writer(p, &w);
        vg_free(dst, cap);
        break;
    }
    }
    vb_printf(&c->trace, "=%d ", ret);
    if (mode16 && c->inited_ok && !resetting) {
        size_t entry = used_before;
        size_t reach = p->buffer_used;            /* net movement of the cursor: what the call "advances over" */
        uint64_t adv = reach >= entry ? reach - entry : 0;
        (void)cb_maxused;
        vw_count("calls_measured", 1);
        vw_count("callbacks", cb_count);
        if (cb_count > adv + 3) {
            char what[240]; snprintf(what, sizeof what, "%s processed %llu tokens while advancing the cursor by %llu bytes (from offset %zu to %zu)", ANAME[a], (unsigned long long)cb_count, (unsigned long long)adv, entry, reach);
            char sig[100]; snprintf(sig, sizeof sig, "c16:work:%s", ANAME[a]);
            /* known finding (known_findings.txt): a lookup issued inside an array stops in front of every container element and reads
             * its BEGIN token again when it goes on, one extra token per container (>= 2 bytes) stepped over. Only that much is
             * attributed to the finding; anything beyond it is reported under the general signature. */
            if (a >= A_FIELD && a <= A_FIELD_ENSURE_LEN && lookup_in_array && cb_count <= adv + adv / 2 + 3) snprintf(sig, sizeof sig, "c16:work:lookup-inside-array:%s", ANAME[a]);
            fail(c, sig, what);
        }
        vw_max("max_tokens_in_one_call", cb_count);
        if (adv + 3 >= cb_count) vw_max("max_slack_used", cb_count > adv ? cb_count - adv : 0);
        if (p->buffer_used < entry && p->error_flags == BINSON_ERROR_NONE) {
            char what[200]; snprintf(what, sizeof what, "%s moved the cursor backwards from %zu to %zu", ANAME[a], entry, p->buffer_used);
            char sig[100]; snprintf(sig, sizeof sig, "c16:backwards:%s", ANAME[a]);
            fail(c, sig, what);
        }
    } else if (mode16 && c->inited_ok && a == A_VERIFY) {
        vw_count("verify_measured", 1);
        vw_count("callbacks", cb_count);
        if (cb_count > (uint64_t)c->n + 2) {
            char what[200]; snprintf(what, sizeof what, "verify processed %llu tokens on a %zu-byte buffer", (unsigned long long)cb_count, c->n);
            fail(c, "c16:work:verify", what);
        }
    }
}

/* directed witness of the known finding: {"A":[{},{},{},{},{}]}, a lookup of "B" issued inside the array */
static void known_witness(void)
{
    static const uint8_t doc[] = { 0x40, 0x14, 0x01, 0x41, 0x42, 0x40, 0x41, 0x40, 0x41, 0x40, 0x41, 0x40, 0x41, 0x40, 0x41, 0x43, 0x41 };
    uint8_t *buf = vg_exact(sizeof doc); memcpy(buf, doc, sizeof doc);
    BINSON_PARSER_DEF(p);
    bool ok = binson_parser_init_object(&p, buf, sizeof doc) && binson_parser_go_into_object(&p) && binson_parser_next(&p) && binson_parser_go_into_array(&p);
    if (ok) {
        p.cb = work_cb; cb_count = 0; cb_limit = 1000;
        size_t entry = p.buffer_used;
        bool ret = binson_parser_field_with_length(&p, "B", 1);
        uint64_t adv = p.buffer_used >= entry ? p.buffer_used - entry : 0;
        vw_count("known_witness_runs", 1);
        if (cb_count > adv + 3)
            vw_violation(cb_count <= adv + adv / 2 + 3 ? "c16:work:lookup-inside-array:field_with_length" : "c16:work:field_with_length",
                         "field_with_length processed %llu tokens while advancing the cursor by %llu bytes (from offset %zu to %zu), returned %d\ninput (%zu bytes): 4014014142404140414041404140414341 = {\"A\":[{},{},{},{},{}]}\ncalls: init_object go_into_object next go_into_array field_with_length(\"B\") - the lookup is issued inside the array",
                         (unsigned long long)cb_count, (unsigned long long)adv, entry, p.buffer_used, ret, sizeof doc);
    } else vw_violation("c16:witness-setup", "the directed witness could not be set up (init/enter/next/enter failed on a valid document)");
    vg_free(buf, sizeof doc);
}

/* "adversarial for work" inputs */
static void work_shape(vrng *r, vbuf *d, int *root)
{
    vb_reset(d);
    size_t n = 1000 + vrn(r, 64000);
    switch (vrn(r, 5)) {
    case 0: *root = K_ARR; vb_fill(d, 0x42, n); d->p[n - 1] = 0x43; break;
    case 1: *root = K_OBJ; vb_u8(d, 0x40); while (d->n < n) { vb_u8(d, 0x14); vb_u8(d, 0x00); vb_u8(d, 0x40); } vb_u8(d, 0x41); break;
    case 2: *root = K_ARR; vb_u8(d, 0x42); while (d->n < n) vb_u8(d, vrn(r, 2) ? 0x44 : 0x45); vb_u8(d, 0x43); break;
    case 3: { /* object with thousands of ascending fields */
        *root = K_OBJ; vb_u8(d, 0x40);
        for (uint32_t i = 0; d->n < n; i++) { uint8_t nm[3] = { (uint8_t)('a' + (i / 676) % 26), (uint8_t)('a' + (i / 26) % 26), (uint8_t)('a' + i % 26) }; ve_strlike(d, 0x14, nm, 3); if (i % 7 == 3) { vb_u8(d, 0x40); vb_u8(d, 0x41); } else if (i % 7 == 5) { vb_u8(d, 0x42); vb_u8(d, 0x42); vb_u8(d, 0x43); vb_u8(d, 0x43); } else vb_u8(d, 0x44); }
        vb_u8(d, 0x41); break;
    }
    default: *root = K_ARR; vb_u8(d, 0x42); while (d->n < n) { vb_u8(d, 0x40); vb_u8(d, 0x41); vb_u8(d, 0x42); vb_u8(d, 0x43); } vb_u8(d, 0x43); break;
    }
}

/* parser objects defined through the header's own macros (stack / static storage) instead of exact-size heap blocks */
static binson_parser *provided_p; static binson_state *provided_st; static int provided_depth;
static void one_case(vrng *r, uint64_t global);
#define WITH_DEF(name, decl, depth) static void name(vrng *r, uint64_t g) { decl; provided_p = &p; provided_st = p.state; provided_depth = (depth); one_case(r, g); provided_p = NULL; }
WITH_DEF(case_def_default, BINSON_PARSER_DEF(p), BINSON_PARSER_DEFAULT_DEPTH)
WITH_DEF(case_def_1, BINSON_PARSER_DEF_DEPTH(p, 1), 1)
WITH_DEF(case_def_2, BINSON_PARSER_DEF_DEPTH(p, 2), 2)
WITH_DEF(case_def_3, BINSON_PARSER_DEF_DEPTH(p, 3), 3)
WITH_DEF(case_def_255, BINSON_PARSER_DEF_DEPTH(p, 255), 255)
WITH_DEF(case_def_static, BINSON_PARSER_DEF_STATIC(p), BINSON_PARSER_DEFAULT_DEPTH)
WITH_DEF(case_def_static_4, BINSON_PARSER_DEF_DEPTH_STATIC(p, 4), 4)
#define WITH_INIT(fn, depth) static void fn(vrng *r, uint64_t g) { binson_parser p = BINSON_PARSER(depth); provided_p = &p; provided_st = p.state; provided_depth = depth; one_case(r, g); provided_p = NULL; }
WITH_INIT(case_initializer, 5)
WITH_INIT(case_initializer_1, 1)
WITH_INIT(case_initializer_40, 40)       /* the initializer form with depths on both sides of the default (10) */
WITH_INIT(case_initializer_255, 255)

static void one_case(vrng *r, uint64_t global)
{
    actx c; memset(&c, 0, sizeof c);
    int root = vrn(r, 3) ? K_OBJ : K_ARR;
    /* ---- bytes ---- */
    uint32_t kind = vrn(r, 100);
    bool workshape = mode16 && vrn(r, 400) == 0;
    if (workshape) work_shape(r, &c.doc0, &root);
    else if (kind < 15) vm_soup(r, &c.doc0, root, (int)vrn(r, 14));
    else {
        if (vncorpus && vrn(r, 12) == 0) { vcorp *f = &vcorpus[vrn(r, (uint32_t)vncorpus)]; vb_put(&c.doc0, f->p, f->n); root = K_OBJ; }
        else {
            vgen g; vg_default(&g, root);
            g.max_nodes = 2 + (int)vrn(r, vrn(r, 6) ? 16 : 150);
            if (vrn(r, 30) == 0) g.huge_permille = 100;
            vnode *t = vrn(r, 60) == 0 ? vt_ladder(r, root, 1 + (int)vrn(r, 256), 1 + (int)vrn(r, 256)) : vt_gen(r, &g);
            vt_encode(t, &c.doc0);
        }
        if (kind >= 50) { int nm = 1 + (int)vrn(r, 3); for (int i = 0; i < nm; i++) vm_mutate(r, &c.doc0); }
    }
    if (vrn(r, 25) == 0) c.doc0.n = vrn(r, 4);                       /* lengths 0..3 */
    if (vrn(r, 50) == 0) root = root == K_OBJ ? K_ARR : K_OBJ;
    /* ---- configuration ---- */
    uint32_t dk = vrn(r, 10);
    c.max_depth = dk < 5 ? 1 + (int)vrn(r, 4) : (dk < 7 ? 255 : 1 + (int)vrn(r, 255));
    uint32_t fill = vrn(r, 5);
    if (provided_p) {
        /* whatever the macro left in the object (stack contents / zeroed static) is the prior content; the macro's own
         * state pointer and max_depth are what the parser must live with */
        c.p = provided_p; c.st = provided_st; c.max_depth = provided_depth;
        if (c.p->max_depth != (uint_fast8_t)provided_depth || c.p->state != provided_st) fail(&c, "c01:macro-config", "the BINSON_PARSER_DEF* macro did not set state/max_depth as documented");
        fill = 9;
        vw_count("cases_with_macro_defined_parser", 1);
    } else {
    c.p = (binson_parser *)malloc(sizeof(binson_parser));
    c.st = (binson_state *)malloc(sizeof(binson_state) * (size_t)c.max_depth);
    }
    size_t stsz = sizeof(binson_state) * (size_t)c.max_depth;
    switch (fill) {
    case 9: break;
    case 0: memset(c.p, 0x00, sizeof *c.p); memset(c.st, 0x00, stsz); break;
    case 1: memset(c.p, 0xFF, sizeof *c.p); memset(c.st, 0xFF, stsz); break;
    default:
        for (size_t i = 0; i < sizeof *c.p; i++) ((uint8_t *)c.p)[i] = (uint8_t)vr64(r);
        for (size_t i = 0; i < stsz; i++) ((uint8_t *)c.st)[i] = (uint8_t)vr64(r);
        if (fill == 3) c.p->depth = (uint_fast8_t)(c.max_depth + 1 + (int)vrn(r, 20));
        if (fill == 4) c.p->error_flags = BINSON_ERROR_NONE;
    }
    if (!provided_p) { c.p->state = c.st; c.p->max_depth = (uint_fast8_t)c.max_depth; }
    set_input(&c, c.doc0.p, c.doc0.n);
    if (VA.verbose) { vbuf d; memset(&d, 0, sizeof d); vb_hex(&d, c.doc0.p, c.doc0.n, 400); fprintf(stderr, "case: %s-rooted init, max_depth=%d, fill=%u, input %zu bytes: %s\n", vkind_name(root), c.max_depth, fill, c.doc0.n, vb_cstr(&d)); vb_free(&d); }
    /* ---- calls ---- */
    no_retarget = true;
    do_call(&c, r, root == K_OBJ ? A_INIT_OBJ : A_INIT_ARR);   /* init on the prepared bytes, whatever it returns */
    no_retarget = false;
    uint32_t ncalls = workshape ? 20 + vrn(r, 200) : 10 + vrn(r, 51);
    bool sensible = vrn(r, 2) != 0;
    if (sensible) do_call(&c, r, (c.n && c.buf[0] == 0x42) ? A_GO_ARR : A_GO_OBJ);
    static const uint8_t weights[A_NCALLS] = { 2, 1, 2, 3, 30, 6, 10, 10, 7, 7, 4, 5, 3, 3, 6, 2, 2, 2, 3, 2, 3, 2, 1, 8, 8, 4, 4, 3 };
    uint32_t wsum = 0; for (int i = 0; i < A_NCALLS; i++) wsum += weights[i];
    for (uint32_t i = 0; i < ncalls && !vw_stop(); i++) {
        uint32_t x = vrn(r, wsum); int a = 0;
        while (x >= weights[a]) { x -= weights[a]; a++; }
        /* keep sequences alive: restart now and then after a latched error, enter containers the cursor is on */
        if (c.p->error_flags != BINSON_ERROR_NONE && vrn(r, 100) < 25) { static const int re[] = { A_INIT_OBJ, A_INIT_ARR, A_RESET, A_VERIFY }; a = re[vrn(r, 4)]; }
        else if (c.inited_ok && c.p->error_flags == BINSON_ERROR_NONE && vrn(r, 100) < 30) {
            binson_type t = binson_parser_get_type(c.p);
            if (t == BINSON_TYPE_OBJECT) a = A_GO_OBJ; else if (t == BINSON_TYPE_ARRAY) a = A_GO_ARR;
        }
        else if (lookups_allowed(&c) && vrn(r, 100) < 30) a = A_FIELD + (int)vrn(r, 4);
        if ((a == A_PRINT || a == A_TO_STRING) && c.n > 5000) a = A_NEXT;
        do_call(&c, r, a);
        if (c.trace.n > 5000) { memmove(c.trace.p, c.trace.p + 2500, c.trace.n - 2500); c.trace.n -= 2500; memcpy(c.trace.p, "...", 3); }
    }
    if (memcmp(c.buf, c.pristine, c.n) != 0) fail(&c, "c01:input-modified", "the parser wrote into the input buffer");
    vw_count("api_calls", ncalls + 1);
    vw_max("max_depth_reached", (uint64_t)c.sp);
    if (c.doc0.n >= 2) vw_nontrivial(vh_hash(c.doc0.p, c.doc0.n, vh_hash(c.trace.p, c.trace.n, (uint64_t)c.max_depth)));
    if (vw_want_sample() && c.n > 4 && c.n < 50 && c.trace.n < 500) {
        vbuf s; memset(&s, 0, sizeof s);
        vb_hex(&s, c.pristine, c.n, 50); vb_printf(&s, " max_depth=%d fill=%u : %s", c.max_depth, fill, vb_cstr(&c.trace));
        vw_sample(vb_cstr(&s)); vb_free(&s);
    }
    (void)global;
    vg_free(c.buf, c.n); free(c.pristine); if (!provided_p) { free(c.p); free(c.st); }
    vb_free(&c.trace); vb_free(&c.doc0);
}

int main(int argc, char **argv)
{
    vw_init(argc, argv);
    mode16 = !strcmp(VA.mode, "c16");
    vcorpus_load(VA.repo);
    vw_mute_stdout();
    vrng r;
    for (uint64_t k = VA.start; k < VA.start + VA.cases && !vw_stop(); k++) {
        vw_case(k);
        if (mode16 && k == 0 && VA.wid == 0) known_witness();
        vr_seed(&r, VA.seed, VA.wid, k);
        va_reset();
        uint64_t g = k * VA.nworkers + VA.wid;
        switch (k % 16 == 7 ? (int)((k / 16) % 11) : -1) {
        case 0: case_def_default(&r, g); break;
        case 1: case_def_1(&r, g); break;
        case 2: case_def_2(&r, g); break;
        case 3: case_def_3(&r, g); break;
        case 4: case_def_255(&r, g); break;
        case 5: case_def_static(&r, g); break;
        case 6: case_def_static_4(&r, g); break;
        case 7: case_initializer(&r, g); break;
        case 8: case_initializer_1(&r, g); break;
        case 9: case_initializer_40(&r, g); break;
        case 10: case_initializer_255(&r, g); break;
        default: one_case(&r, g);
        }
    }
    for (int i = 0; i < A_NCALLS; i++) { char nm[64]; snprintf(nm, sizeof nm, "call_%s", ANAME[i]); vw_count(nm, callcount[i]); }
    return vw_finish();
}
