/* w_cpp.cpp — C15: the C++ Binson class.
 *   mode c15t : value trees -> serialize() vs independent encoder, verify, deserialize(serialize(x)) == x (3 overloads),
 *               serialize(writer) agrees
 *   mode c15b : byte strings (valid trees, corpus, mutants, soup, lengths 0/1, empty vectors with and without capacity):
 *               serialize(deserialize(b)) == b on valid input; each overload returns  <=>  verify at depth 10 accepts,
 *               otherwise throws std::exception; never crashes
 */
#include "vh.h"
#include "binson.hpp"
#include <algorithm>
#include <string>
#include <vector>

static Binson build_obj(const vnode *o, vrng *r);
static BinsonValue build_val_direct(const vnode *n, vrng *r);
static BinsonValue build_val(const vnode *n, vrng *r)
{
    if (vrn(r, 4) == 0) {
        /* the value is not constructed but assigned (operator=(T&&)) to a BinsonValue that already holds something - of the same
         * kind or of another one */
        BinsonValue v;
        switch (vrn(r, 6)) {
        case 0: v = BinsonValue(std::string("previous content, long enough to live on the heap")); break;
        case 1: v = BinsonValue(std::vector<uint8_t>(40, 0x5a)); break;
        case 2: { std::vector<BinsonValue> pa; pa.push_back(BinsonValue((int64_t)1)); v = BinsonValue(pa); break; }
        case 3: { Binson po; po.put("p", BinsonValue(true)); v = BinsonValue(po); break; }
        case 4: v = BinsonValue((int64_t)-9); break;
        default: break;
        }
        vw_count("values_assigned_over_previous_content", 1);
        switch (n->kind) {
        case K_BOOL: v = (bool)n->b; break;
        case K_INT: v = (int64_t)n->i; break;
        case K_DBL: { double d; memcpy(&d, &n->dbits, 8); v = std::move(d); break; }
        case K_STR: v = std::string((const char *)n->data, n->data_len); break;
        case K_BYTES: v = std::vector<uint8_t>(n->data, n->data + n->data_len); break;
        case K_OBJ: v = build_obj(n, r); break;
        default: {
            std::vector<BinsonValue> a;
            for (uint32_t i = 0; i < n->nkids; i++) a.push_back(build_val(n->kids[i], r));
            v = std::move(a);
            break;
        }
        }
        return v;
    }
    return build_val_direct(n, r);
}
static BinsonValue build_val_direct(const vnode *n, vrng *r)
{
    switch (n->kind) {
    case K_BOOL: return BinsonValue((bool)n->b);
    case K_INT: return BinsonValue((int64_t)n->i);
    case K_DBL: { double d; memcpy(&d, &n->dbits, 8); return BinsonValue(d); }
    case K_STR: return BinsonValue(std::string((const char *)n->data, n->data_len));
    case K_BYTES: return BinsonValue(std::vector<uint8_t>(n->data, n->data + n->data_len));
    case K_OBJ: return BinsonValue(build_obj(n, r));
    default: {
        std::vector<BinsonValue> a;
        for (uint32_t i = 0; i < n->nkids; i++) a.push_back(build_val(n->kids[i], r));
        return BinsonValue(a);
    }
    }
}
static Binson build_obj(const vnode *o, vrng *r)
{
    Binson b;
    std::vector<uint32_t> order(o->nkids);
    for (uint32_t i = 0; i < o->nkids; i++) order[i] = i;
    for (uint32_t i = o->nkids; i > 1; i--) std::swap(order[i - 1], order[vrn(r, i)]);     /* random insertion order */
    for (uint32_t k = 0; k < o->nkids; k++) {
        const vnode *kid = o->kids[order[k]];
        std::string key((const char *)kid->name, kid->name_len);
        if (kid->kind == K_BYTES && vrn(r, 2)) b.put(key, kid->data, kid->data_len);            /* the (key, data, size) overload */
        else if (kid->kind == K_OBJ && vrn(r, 2)) {
            /* the (key, Binson) overload, half of the time from an object the caller keeps and goes on using: what was put is a copy */
            if (vrn(r, 2)) b.put(key, build_obj(kid, r));
            else {
                Binson child = build_obj(kid, r);
                b.put(key, child);
                switch (vrn(r, 3)) {
                case 0: child.clear(); break;
                case 1: child.put("\x02later", BinsonValue((int64_t)5)); break;
                default: { std::vector<uint8_t> other = { 0x40, 0x14, 0x01, 0x7a, 0x10, 0x01, 0x41 }; child.deserialize(other); break; }
                }
                vw_count("children_modified_after_put", 1);
            }
        }
        else b.put(key, build_val(kid, r));
        if (vrn(r, 6) == 0) b.put(key, build_val(kid, r));                                        /* putting a key twice replaces */
    }
    return b;
}

static std::string cmp_val(const BinsonValue &v, const vnode *n);
static std::string cmp_obj(const Binson &b, const vnode *o)
{
    uint32_t i = 0;
    for (auto it = b.begin(); it != b.end(); ++it, ++i) {
        if (i >= o->nkids) return "more fields than the tree has";
        const vnode *k = o->kids[i];
        if (it->first.size() != k->name_len || memcmp(it->first.data(), k->name, k->name_len) != 0) return "field name / order differs at index " + std::to_string(i);
        std::string e = cmp_val(it->second, k);
        if (!e.empty()) return e;
        if (!b.hasKey(it->first) || &b.get(it->first) != &it->second) return "hasKey/get disagree with iteration at index " + std::to_string(i);
    }
    if (i != o->nkids) return "fewer fields than the tree has";
    return "";
}
static std::string cmp_val(const BinsonValue &v, const vnode *n)
{
    typedef BinsonValue::Types T;
    switch (n->kind) {
    case K_BOOL: if (v.myType() != T::boolType || v.getBool() != n->b) return "boolean differs"; break;
    case K_INT: if (v.myType() != T::intType || v.getInt() != n->i) return "integer differs (" + std::to_string((long long)n->i) + ")"; break;
    case K_DBL: { if (v.myType() != T::doubleType) return "double type differs"; double d = v.getDouble(); uint64_t b; memcpy(&b, &d, 8); if (b != n->dbits) return "double bits differ"; break; }
    case K_STR: if (v.myType() != T::stringType || v.getString().size() != n->data_len || memcmp(v.getString().data(), n->data, n->data_len) != 0) return "string differs"; break;
    case K_BYTES: if (v.myType() != T::binaryType || v.getBin().size() != n->data_len || (n->data_len && memcmp(v.getBin().data(), n->data, n->data_len) != 0)) return "bytes differ"; break;
    case K_OBJ: if (v.myType() != T::objectType) return "object type differs"; return cmp_obj(v.getObject(), n);
    case K_ARR: {
        if (v.myType() != T::arrayType) return "array type differs";
        const std::vector<BinsonValue> &a = v.getArray();
        if (a.size() != n->nkids) return "array length differs";
        for (uint32_t i = 0; i < n->nkids; i++) { std::string e = cmp_val(a[i], n->kids[i]); if (!e.empty()) return e; }
        break;
    }
    }
    return "";
}

static void report(const char *sig, const std::string &what, const uint8_t *p, size_t n)
{
    vbuf o; memset(&o, 0, sizeof o);
    vb_printf(&o, "%s\n%zu bytes: ", what.c_str(), n);
    if (n) vb_hex(&o, p, n, 400);
    vw_violation(sig, "%s", vb_cstr(&o));
    vb_free(&o);
}

/* zero a stretch of stack so that an uninitialised parser object reads zeros, not leftovers */
static void __attribute__((noinline)) paint_stack(uint8_t v)
{
    volatile uint8_t pad[12000];
    for (size_t i = 0; i < sizeof pad; i++) pad[i] = v;
}

enum { OUT_RETURNED = 0, OUT_THREW, OUT_THREW_OTHER };
static bool null_for_empty;      /* an empty input is handed over as (NULL, 0), as data() of an empty std::vector may be */
static int run_overload(int which, const uint8_t *exact, size_t n, const std::vector<uint8_t> *vec, Binson &out, std::string &msg)
{
    /* the receiving object has a history: deserialize must replace, not merge */
    out.put("\x01prior", BinsonValue((int64_t)77));
    out.put("zzprior\xff", BinsonValue(std::string("left over")));
    try {
        vw_inflight("IN-LIBRARY-CALL deserialize-overload%d (%zu input bytes)", which + 1, n);
        if (which == 0) { paint_stack(0); out.deserialize(*vec); }
        else if (which == 1) out.deserialize((n == 0 && null_for_empty) ? NULL : exact, n);
        else {
            binson_state st[10];
            binson_parser p;
            memset(&p, 0, sizeof p); memset(st, 0, sizeof st);
            p.state = st; p.max_depth = 10;
            bool iok = binson_parser_init(&p, (n == 0 && null_for_empty) ? NULL : exact, n);        /* result deliberately ignored: the overload resets and checks */
            if (n == 0 && null_for_empty) vw_count("overload3_after_refused_null_init", 1);
            static unsigned hist;
            ++hist;
            if (iok && (hist % 3) == 1) {
                /* the caller has already walked the whole root object and left it again (depth back at 0, cursor at the end) */
                bool b = binson_parser_go_into_object(&p);
                while (b && binson_parser_next(&p)) { }
                if (b) binson_parser_leave_object(&p);
                vw_count("overload3_after_complete_walk", 1);
            }
            if (iok && (hist % 3) == 0) {
                /* the caller peeked into the document first and abandoned the walk somewhere deep: deserialize(parser*) resets */
                bool b = binson_parser_go_into_object(&p);
                for (int i = 0; b && i < 2 + (int)(hist % 5); i++) {
                    if (!binson_parser_next(&p)) break;
                    binson_type ty = binson_parser_get_type(&p);
                    if (ty == BINSON_TYPE_OBJECT) binson_parser_go_into_object(&p); else if (ty == BINSON_TYPE_ARRAY) binson_parser_go_into_array(&p);
                }
            }
            out.deserialize(&p);
        }
        vw_inflight("%s", "");
        return OUT_RETURNED;
    } catch (const std::exception &e) { vw_inflight("%s", ""); msg = e.what(); return OUT_THREW; }
    catch (...) { vw_inflight("%s", ""); msg = "non-std exception"; return OUT_THREW_OTHER; }
}

static bool verify10(const uint8_t *exact, size_t n)
{
    binson_state st[10]; binson_parser p;
    memset(&p, 0, sizeof p); memset(st, 0, sizeof st);
    p.state = st; p.max_depth = 10;
    return binson_parser_init_object(&p, exact, n) && binson_parser_verify(&p);
}

static int levels(const vnode *n, int od)
{
    int here = od + (n->kind == K_OBJ ? 1 : 0), best = here;
    for (uint32_t i = 0; i < n->nkids; i++) { int d = levels(n->kids[i], here); if (d > best) best = d; }
    return best;
}

static vnode *value_tree(vrng *r)
{
    vgen g; vg_default(&g, K_OBJ);
    uint32_t shape = vrn(r, 100);
    g.max_obj_depth = 10; g.max_arr_depth = 5;
    g.max_nodes = 2 + (int)vrn(r, shape < 70 ? 25 : 300);
    g.container_permille = 350;
    g.big_permille = 60; g.huge_permille = 0;
    if (shape >= 90) { g.max_nodes = 30 + (int)vrn(r, 120); g.big_permille = 500; }       /* straddles the 1000-byte first-try buffer */
    if (shape >= 98) g.huge_permille = 60;
    if (vrn(r, 40) == 0) { int lo = 1 + (int)vrn(r, 10); int la = 1 + (int)vrn(r, 40); return vt_ladder(r, K_OBJ, lo, la); }
    return vt_gen(r, &g);
}

static void case_tree(vrng *r)
{
    vnode *t = value_tree(r);
    vbuf e; memset(&e, 0, sizeof e);
    vt_encode(t, &e);
    /* sizes just around 1000 bytes: pad with a bytes field to hit 995..1005 exactly now and then */
    Binson x = build_obj(t, r);
    std::vector<uint8_t> s = x.serialize();
    if (s.size() != e.n || memcmp(s.data(), e.p, e.n) != 0) {
        size_t at = 0; while (at < s.size() && at < e.n && s[at] == e.p[at]) at++;
        vbuf o; memset(&o, 0, sizeof o);
        vb_printf(&o, "serialize() produced %zu bytes, the canonical encoding (keys sorted bytewise) has %zu; first difference at offset %zu\ntree: ", s.size(), e.n, at);
        vt_describe(t, &o, 600);
        vw_violation(s.empty() ? "c15:serialize-empty" : "c15:serialize-bytes", "%s", vb_cstr(&o)); vb_free(&o);
        vb_free(&e); return;
    }
    uint8_t *exact = vg_exact(e.n); memcpy(exact, e.p, e.n);
    if (!verify10(exact, e.n)) report("c15:serialize-not-verified", "verify rejects the output of serialize()", e.p, e.n);
    /* serialize(writer) into an exact-size buffer */
    { uint8_t *dst = vg_exact(e.n); binson_writer w; binson_writer_init(&w, dst, e.n); x.serialize(&w);
      if (w.error_flags != BINSON_ERROR_NONE || binson_writer_get_counter(&w) != e.n || memcmp(dst, e.p, e.n) != 0) report("c15:serialize-writer", "serialize(binson_writer*) disagrees with serialize()", e.p, e.n);
      vg_free(dst, e.n); }
    for (int which = 0; which < 3; which++) {
        bool from_copy = vrn(r, 3) == 0;
        Binson fresh; Binson y = from_copy ? x : fresh;      /* the receiver may have begun as a copy of x: x itself must not notice */
        std::string msg;
        int out = run_overload(which, exact, e.n, &s, y, msg);
        char sig[80];
        if (from_copy) {
            std::vector<uint8_t> sx = x.serialize();
            if (sx != s) { snprintf(sig, sizeof sig, "c15:copy-not-independent:overload%d", which + 1); report(sig, "deserialize into a copy of x changed what x.serialize() returns", sx.data(), sx.size()); break; }
            vw_count("deserialize_into_copies", 1);
        }
        if (out != OUT_RETURNED) { snprintf(sig, sizeof sig, "c15:roundtrip-threw:overload%d", which + 1); report(sig, "deserialize(serialize(x)) threw: " + msg, e.p, e.n); break; }
        std::string diff = cmp_obj(y, t);
        if (!diff.empty()) { snprintf(sig, sizeof sig, "c15:roundtrip-differs:overload%d", which + 1); report(sig, "deserialize(serialize(x)) != x: " + diff, e.p, e.n); break; }
        std::vector<uint8_t> s2 = y.serialize();
        if (s2 != s) { snprintf(sig, sizeof sig, "c15:reserialize-differs:overload%d", which + 1); report(sig, "serialize(deserialize(bytes)) != bytes", e.p, e.n); break; }
    }
    {
        /* the object keeps being used: a field added through each put overload must show up in the next serialize() */
        static const char *extra[3] = { "\xfe" "x1", "\xfe" "x2", "\xfe" "x3" };
        uint8_t blob[5] = { 1, 0, 0xff, 0x80, 7 };
        for (int ov = 0; ov < 3; ov++) {
            vnode *k;
            if (ov == 0) { k = vt_str(K_BYTES, blob, 5); x.put(std::string(extra[ov]), blob, 5); }
            else if (ov == 1) { k = vt_int(-128 - ov); x.put(std::string(extra[ov]), BinsonValue((int64_t)k->i)); }
            else { k = vt_new(K_OBJ); x.put(std::string(extra[ov]), Binson()); }
            vt_setname(k, (const uint8_t *)extra[ov], 3);
            vt_add(t, k);
            vt_sortfields(t);
            vbuf e2; memset(&e2, 0, sizeof e2);
            vt_encode(t, &e2);
            std::vector<uint8_t> s3 = x.serialize();
            bool same = s3.size() == e2.n && memcmp(s3.data(), e2.p, e2.n) == 0;
            vb_free(&e2);
            if (!same) { char sig[80]; snprintf(sig, sizeof sig, "c15:serialize-after-put:overload%d", ov + 1); report(sig, "serialize() after a further put() does not give the canonical encoding of the updated object", s3.data(), s3.size()); break; }
        }
        vw_count("reserialize_after_put", 3);
        /* put under a key that is already present replaces the value (all three overloads), then an object put into itself:
         * the stored value is the object as it was when put() was called */
        bool okp = true;
        for (int ov = 0; ov < 3 && okp; ov++) {
            vnode *oldk = NULL; uint32_t at = 0;
            for (uint32_t i = 0; i < t->nkids; i++) if (t->kids[i]->name_len == 3 && memcmp(t->kids[i]->name, extra[ov], 3) == 0) { oldk = t->kids[i]; at = i; }
            if (!oldk) break;
            vnode *k;
            if (ov == 0) { k = vt_int(4242); x.put(std::string(extra[ov]), BinsonValue((int64_t)4242)); }
            else if (ov == 1) { uint8_t b2[2] = { 0xAA, 0x0A }; k = vt_str(K_BYTES, b2, 2); x.put(std::string(extra[ov]), b2, 2); }
            else { k = vt_new(K_OBJ); vnode *in = vt_int(-1); vt_setname(in, (const uint8_t *)"i", 1); vt_add(k, in); Binson o2; o2.put("i", BinsonValue((int64_t)-1)); x.put(std::string(extra[ov]), o2); }
            vt_setname(k, (const uint8_t *)extra[ov], 3);
            k->parent = t; k->index = at; t->kids[at] = k;
            vbuf e2; memset(&e2, 0, sizeof e2);
            vt_encode(t, &e2);
            std::vector<uint8_t> s3 = x.serialize();
            okp = s3.size() == e2.n && memcmp(s3.data(), e2.p, e2.n) == 0;
            vb_free(&e2);
            if (!okp) { char sig[80]; snprintf(sig, sizeof sig, "c15:serialize-after-replace:overload%d", ov + 1); report(sig, "serialize() after put() under a key that was already present does not give the canonical encoding of the updated object", s3.data(), s3.size()); }
            vw_count("put_replacing_existing_key", 1);
        }
        if (okp) {
            /* every entry put again from its own stored value (x.put(k, x.get(k))): the tree, and serialize(), stay the same */
            vbuf e2; memset(&e2, 0, sizeof e2);
            vt_encode(t, &e2);
            for (uint32_t i = 0; i < t->nkids; i++) { std::string key((const char *)t->kids[i]->name, t->kids[i]->name_len); x.put(key, x.get(key)); }
            std::vector<uint8_t> s3 = x.serialize();
            okp = s3.size() == e2.n && memcmp(s3.data(), e2.p, e2.n) == 0;
            vb_free(&e2);
            if (!okp) report("c15:serialize-after-reput", "serialize() after putting every entry again from its own value (x.put(k, x.get(k))) differs from the canonical encoding of the unchanged tree", s3.data(), s3.size());
            vw_count("reputs_from_own_value", t->nkids);
        }
        if (okp && levels(t, 0) <= 9) {
            vbuf e2; memset(&e2, 0, sizeof e2);
            static vbuf e0;                                       /* reused from case to case: the copied subtree only lives until the case ends */
            vb_reset(&e0);
            vt_encode(t, &e0);
            vnode *copy = vt_decode(e0.p, e0.n, K_OBJ);          /* the object as it is now (the decoded tree points into e0) */
            static const char selfkey[] = "\xfe" "self";
            vt_setname(copy, (const uint8_t *)selfkey, 5);
            x.put(std::string(selfkey), x);
            vt_add(t, copy); vt_sortfields(t);
            vt_encode(t, &e2);
            std::vector<uint8_t> s3 = x.serialize();
            bool same = s3.size() == e2.n && memcmp(s3.data(), e2.p, e2.n) == 0;
            if (!same) report("c15:serialize-after-self-put", "serialize() after x.put(key, x) does not give the canonical encoding of x holding a copy of its former self", s3.data(), s3.size());
            else { uint8_t *ex2 = vg_exact(e2.n); memcpy(ex2, e2.p, e2.n); if (!verify10(ex2, e2.n)) report("c15:serialize-not-verified", "verify rejects the output of serialize() after a self-put", e2.p, e2.n); vg_free(ex2, e2.n); }
            vb_free(&e2);
            vw_count("self_puts", 1);
        }
    }
#ifdef BINSON_PARSER_WITH_PRINT
    if (vrn(r, 8) == 0) {
        /* toStr(): text for objects the wrapper's 10-level parser can print, an empty string beyond - and it must come back */
        int lv = 1 + (int)vrn(r, 14);
        Binson inner; inner.put("v", BinsonValue((int64_t)lv));
        for (int i = 1; i < lv; i++) { Binson outer; outer.put("n", inner); inner = outer; }
        std::string txt = inner.toStr();
        if ((lv <= 10) == txt.empty()) { char w2[120]; snprintf(w2, sizeof w2, "toStr() of an object nested %d levels returned %zu characters", lv, txt.size()); report("c15:toStr-depth", w2, NULL, 0); }
        vw_count("toStr_calls", 1);
    }
#endif
    vw_count("trees", 1); vw_count("roundtrips", 3);
    vw_max("max_serialized_bytes", e.n);
    if (e.n > 1000) vw_count("above_first_try_buffer", 1);
    if (e.n >= 990 && e.n <= 1010) vw_count("near_1000_bytes", 1);
    if (vt_count(t) >= 2) vw_nontrivial(vh_hash(e.p, e.n, 15));
    if (vw_want_sample() && e.n < 70 && vt_count(t) >= 4) { vbuf o; memset(&o, 0, sizeof o); vt_describe(t, &o, 300); vb_printf(&o, " -> serialize() %zu canonical bytes, 3 overloads round-trip", e.n); vw_sample(vb_cstr(&o)); vb_free(&o); }
    vg_free(exact, e.n); vb_free(&e);
}

static void case_bytes(vrng *r, uint64_t global)
{
    vbuf d; memset(&d, 0, sizeof d);
    char origin[100];
    bool reserve_empty = false;
    if (global < vncorpus) { vb_put(&d, vcorpus[global].p, vcorpus[global].n); snprintf(origin, sizeof origin, "corpus %s", vcorpus[global].name); vw_count("corpus_files", 1); }
    else if (global < vncorpus + 24) {
        /* array openers far beyond the parser's limit of 255: the recursive deserialiser must be stopped by the C parser, not by the stack */
        static const uint32_t NEST[] = { 254, 255, 256, 300, 5000, 60000 };
        uint32_t n = NEST[(global - vncorpus) % 6]; int levels = 1 + (int)((global - vncorpus) / 6) * 3;
        for (int l = 0; l < levels; l++) { vb_u8(&d, 0x40); vb_u8(&d, 0x14); vb_u8(&d, 0x00); }
        vb_fill(&d, 0x42, n); vb_fill(&d, 0x43, n);
        for (int l = 0; l < levels; l++) vb_u8(&d, 0x41);
        snprintf(origin, sizeof origin, "%u nested arrays below %d object level(s)", n, levels);
        vw_count("deep_array_documents", 1);
    }
    else {
        uint32_t k = vrn(r, 100);
        if (k < 6) { d.n = 0; vb_reserve(&d, 4); uint8_t t[2] = { (uint8_t)(0x40 + vrn(r, 2)), (uint8_t)(0x40 + vrn(r, 3)) }; vb_put(&d, t, vrn(r, 3)); reserve_empty = vrn(r, 2); snprintf(origin, sizeof origin, "length %zu", d.n); }
        else if (k < 14) { vm_soup(r, &d, K_OBJ, 1 + (int)vrn(r, 10)); snprintf(origin, sizeof origin, "token soup"); }
        else {
            vnode *t = value_tree(r);
            if (vrn(r, 12) == 0) t = vt_ladder(r, K_OBJ, 9 + (int)vrn(r, 4), 1 + (int)vrn(r, 256));   /* around the wrapper's depth limit */
            vt_encode(t, &d);
            if (k < 50) snprintf(origin, sizeof origin, "valid document (%d object levels)", levels(t, 0));
            else { int nm = 1 + (int)vrn(r, 3); for (int i = 0; i < nm; i++) vm_mutate(r, &d); snprintf(origin, sizeof origin, "valid document + %d mutation(s)", nm); }
        }
    }
    uint8_t *exact = vg_exact(d.n); if (d.n) memcpy(exact, d.p, d.n);
    bool V = verify10(exact, d.n);
    std::vector<uint8_t> vec;
    if (d.n) vec.assign(d.p, d.p + d.n); else if (reserve_empty) vec.reserve(16);
    vw_count(V ? "accepted_by_verify" : "rejected_by_verify", 1);
    for (int which = 0; which < 3; which++) {
        Binson y; std::string msg;
        null_for_empty = d.n == 0 && vrn(r, 2);
        int out = run_overload(which, exact, d.n, &vec, y, msg);
        null_for_empty = false;
        char sig[100];
        char cn[40]; snprintf(cn, sizeof cn, "overload%d_%s", which + 1, out == OUT_RETURNED ? "returned" : "threw"); vw_count(cn, 1);
        if (out == OUT_THREW_OTHER) { snprintf(sig, sizeof sig, "c15:non-std-exception:overload%d", which + 1); report(sig, std::string("threw something that is not a std::exception (") + origin + ")", d.p, d.n); continue; }
        if ((out == OUT_RETURNED) != V) {
            snprintf(sig, sizeof sig, "c15:%s:overload%d", V ? "throws-on-valid" : "accepts-invalid", which + 1);
            report(sig, std::string("deserialize overload ") + std::to_string(which + 1) + (out == OUT_RETURNED ? " returned normally" : (" threw '" + msg + "'")) + " but verify (max_depth 10) " + (V ? "accepts" : "rejects") + " the bytes (" + origin + ")", d.p, d.n);
            continue;
        }
        if (out == OUT_RETURNED) {
            std::vector<uint8_t> s = y.serialize();
            if (s.size() != d.n || (d.n && memcmp(s.data(), d.p, d.n) != 0)) { snprintf(sig, sizeof sig, "c15:bytes-roundtrip:overload%d", which + 1); report(sig, std::string("serialize(deserialize(bytes)) != bytes (") + origin + ")", d.p, d.n); }
        }
    }
    vw_nontrivial(vh_hash(d.p ? d.p : (const uint8_t *)"", d.n, reserve_empty ? 151 : 150));
    if (vw_want_sample() && d.n < 40) { vbuf o; memset(&o, 0, sizeof o); vb_printf(&o, "%s: ", origin); vb_hex(&o, d.p, d.n, 40); vb_printf(&o, " -> verify=%d, all three overloads %s", V, V ? "returned and re-serialized identically" : "threw std::exception"); vw_sample(vb_cstr(&o)); vb_free(&o); }
    vg_free(exact, d.n); vb_free(&d);
}

/* ---- C18: transcript of the C++ wrapper's observable results, one digest per scenario ---- */
static void t_u64(vbuf *t, uint64_t v) { uint8_t b[8]; for (int i = 0; i < 8; i++) b[i] = (uint8_t)(v >> (8 * i)); vb_put(t, b, 8); }
static void xs_case(vrng *r, vbuf *t)
{
    /* (a) a value tree: serialize bytes, toStr text */
    vnode *tree = value_tree(r);
    Binson x = build_obj(tree, r);
    std::vector<uint8_t> s = x.serialize();
    t_u64(t, s.size()); if (!s.empty()) vb_put(t, s.data(), s.size());
#ifdef BINSON_PARSER_WITH_PRINT
    if (s.size() < 3000) { std::string txt = x.toStr(); t_u64(t, txt.size()); vb_put(t, txt.data(), txt.size()); }
#endif
    /* (b) a byte string through the three overloads */
    vbuf d; memset(&d, 0, sizeof d);
    uint32_t k = vrn(r, 100);
    if (k < 10) vm_soup(r, &d, K_OBJ, 1 + (int)vrn(r, 10));
    else { vnode *t2 = value_tree(r); vt_encode(t2, &d); if (k >= 50) { int nm = 1 + (int)vrn(r, 2); for (int i = 0; i < nm; i++) vm_mutate(r, &d); } }
    std::vector<uint8_t> vec; if (d.n) vec.assign(d.p, d.p + d.n);
    for (int which = 0; which < 3; which++) {
        Binson y; std::string msg;
        int out = run_overload(which, d.p, d.n, &vec, y, msg);
        vb_u8(t, (uint8_t)out);
        if (out == OUT_RETURNED) { std::vector<uint8_t> s2 = y.serialize(); t_u64(t, s2.size()); if (!s2.empty()) vb_put(t, s2.data(), s2.size()); }
        else { vb_put(t, msg.data(), msg.size()); }
    }
    vb_free(&d);
}

int main(int argc, char **argv)
{
    vw_init(argc, argv);
    vcorpus_load(VA.repo);
    vrng r;
    if (!strcmp(VA.mode, "c18x")) {
        bool dump = strstr(VA.opt, "dump") != NULL;
        char path[1024]; snprintf(path, sizeof path, "%s/xs-%llu.bin", VA.outdir, (unsigned long long)VA.wid);
        FILE *f = dump ? NULL : fopen(path, VA.start ? "ab" : "wb");
        vbuf t; memset(&t, 0, sizeof t);
        for (uint64_t k = VA.start; k < VA.start + VA.cases; k++) {
            vw_case(k); vr_seed(&r, VA.seed, VA.wid, k); va_reset(); vb_reset(&t);
            xs_case(&r, &t);
            uint64_t h = vh_hash(t.p, t.n, k);
            if (f) fwrite(&h, 8, 1, f);
            if (dump) { vbuf o; memset(&o, 0, sizeof o); vb_hex(&o, t.p, t.n, 1 << 20); fprintf(stderr, "TRANSCRIPT case=%llu bytes=%zu %s\n", (unsigned long long)k, t.n, vb_cstr(&o)); vb_free(&o); }
            vw_nontrivial(h); vw_count("transcript_bytes", t.n); vw_count("cpp_scenarios", 1);
            if (vw_want_sample()) { char sm[200]; snprintf(sm, sizeof sm, "C++ scenario wid=%llu case=%llu: serialize()/toStr() of a value tree + 3 deserialize overloads on a byte string -> transcript of %zu bytes, digest %016llx", (unsigned long long)VA.wid, (unsigned long long)k, t.n, (unsigned long long)h); vw_sample(sm); }
        }
        if (f) fclose(f);
        return vw_finish();
    }
    bool trees = !strcmp(VA.mode, "c15t");
    for (uint64_t k = VA.start; k < VA.start + VA.cases && !vw_stop(); k++) {
        vw_case(k);
        vr_seed(&r, VA.seed, VA.wid, k);
        va_reset();
        if (trees) case_tree(&r); else case_bytes(&r, k * VA.nworkers + VA.wid);
    }
    return vw_finish();
}
