/* w_xscript.c — C18: transcript worker. Replays a seeded scenario corpus covering all public C functions and
 * writes one 64-bit digest per scenario to <out>/xs-<wid>.bin. The driver runs it under every build
 * configuration and compares the files; nothing here depends on addresses, uninitialised bytes or timing.
 * With --opt dump the full transcript of the selected scenario is printed in hex (used by --replay).
 */
#define _GNU_SOURCE
#include "vh.h"
#include <unistd.h>

static int capfd = -1;
static const int DEPTHS[] = { 1, 2, 3, 10, 255 };

static void t_u64(vbuf *t, uint64_t v) { uint8_t b[8]; for (int i = 0; i < 8; i++) b[i] = (uint8_t)(v >> (8 * i)); vb_put(t, b, 8); }

static void scenario(vrng *r, vbuf *t, uint64_t *kinds)
{
    vbuf d; memset(&d, 0, sizeof d);
    int root = vrn(r, 3) ? K_OBJ : K_ARR;
    int depth = DEPTHS[vrn(r, 5)];
    uint32_t k = vrn(r, 100);
    if (k < 8) vm_soup(r, &d, root, 1 + (int)vrn(r, 10));
    else {
        vgen g; vg_default(&g, root);
        g.max_nodes = 3 + (int)vrn(r, vrn(r, 4) ? 20 : 100);
        g.container_permille = 400; g.big_permille = 60;
        vnode *tree;
        if (vrn(r, 60) == 0) { int lo = 1 + (int)vrn(r, 20); int la = 1 + (int)vrn(r, 256); tree = vt_ladder(r, root, lo, la); }
        else tree = vt_gen(r, &g);
        vt_encode(tree, &d);
        if (k >= 55) { int nm = 1 + (int)vrn(r, 2); for (int i = 0; i < nm; i++) vm_mutate(r, &d); }
    }
    /* 1. parser: init / verify verdict and code, then a scripted call list */
    binson_parser *p = (binson_parser *)calloc(1, sizeof(binson_parser));
    binson_state *st = (binson_state *)calloc((size_t)depth, sizeof(binson_state));
    uint8_t *buf = (uint8_t *)malloc(d.n + 1);
    if (d.n) memcpy(buf, d.p, d.n);
    p->state = st; p->max_depth = (uint_fast8_t)depth;
    bool init = root == K_OBJ ? binson_parser_init_object(p, buf, d.n) : binson_parser_init_array(p, buf, d.n);
    vb_u8(t, init); vb_u8(t, (uint8_t)p->error_flags);
    bool ver = binson_parser_verify(p);
    vb_u8(t, ver); vb_u8(t, (uint8_t)p->error_flags);
    kinds[ver ? 0 : 1]++;
    vsop ops[40]; int n = 8 + (int)vrn(r, 32);
    vs_random(r, ops, n, d.p, d.n, vrn(r, 4) != 0);
    vsctx cx; memset(&cx, 0, sizeof cx);
    for (int i = 0; i < n; i++) vs_exec(p, buf, d.n, &cx, &ops[i], t);
#ifdef BINSON_PARSER_WITH_PRINT
    /* 2. text: to_string protocol at a few capacities, print output */
    if (d.n < 3000) {
        size_t need = 12345;
        bool q = binson_parser_to_string(p, NULL, &need, false);
        vb_u8(t, q); t_u64(t, need);
        size_t caps[3] = { need > 2 ? need - 1 - vrn(r, (uint32_t)need - 1) : 0, need, need + 5 };
        for (int i = 0; i < 3; i++) {
            char *dst = (char *)calloc(caps[i] + 1, 1);
            size_t sz = caps[i];
            bool ret = binson_parser_to_string(p, dst, &sz, true);
            vb_u8(t, ret); t_u64(t, sz);
            if (ret) vb_put(t, dst, sz);
            free(dst);
        }
        if (capfd >= 0) {
            if (ftruncate(capfd, 0) != 0 || lseek(capfd, 0, SEEK_SET) < 0) exit(2);
            bool pr = binson_parser_print(p);
            fflush(stdout);
            off_t len = lseek(capfd, 0, SEEK_END);
            char *out = (char *)malloc((size_t)len + 1);
            if (pread(capfd, out, (size_t)len, 0) != len) exit(2);
            vb_u8(t, pr); t_u64(t, (uint64_t)len);
            if (pr) vb_put(t, out, (size_t)len);     /* what print writes for a document it then rejects is not specified */
            free(out);
        }
        kinds[2]++;
    }
#endif
    /* 3. writer: a random call list at a cut capacity */
    {
        size_t cap = vrn(r, 3) ? vrn(r, 120) : 4000;
        uint8_t *dst = (uint8_t *)calloc(cap + 1, 1);
        binson_writer w;
        binson_writer_init(&w, dst, cap);
        int wn = 1 + (int)vrn(r, 14);
        for (int i = 0; i < wn; i++) {
            bool ret = false;
            uint8_t data[300]; uint32_t len = vrn(r, 8) ? vrn(r, 12) : 120 + vrn(r, 170);
            for (uint32_t j = 0; j < len; j++) { data[j] = (uint8_t)vr64(r); if (data[j] == 0) data[j] = 0xfe; }
            data[len] = 0;
            switch (vrn(r, 13)) {
            case 0: ret = binson_write_object_begin(&w); break;
            case 1: ret = binson_write_object_end(&w); break;
            case 2: ret = binson_write_array_begin(&w); break;
            case 3: ret = binson_write_array_end(&w); break;
            case 4: ret = binson_write_boolean(&w, vrn(r, 2)); break;
            case 5: case 6: ret = binson_write_integer(&w, vt_rand_int(r)); break;
            case 7: { uint64_t b = vt_rand_dbits(r); double dv; memcpy(&dv, &b, 8); ret = binson_write_double(&w, dv); break; }
            case 8: ret = binson_write_string(&w, (const char *)data); break;
            case 9: ret = binson_write_string_with_len(&w, (const char *)data, len); break;
            case 10: ret = binson_write_name(&w, (const char *)data); break;
            case 11: ret = binson_write_bytes(&w, data, len); break;
            default: ret = binson_write_raw(&w, data, len); break;
            }
            if (vrn(r, 40) == 0) {
                /* documented NULL handling: false + ERROR_NULL, everything later refused */
                switch (vrn(r, 3)) {
                case 0: ret = binson_write_raw(&w, NULL, vrn(r, 2) ? 0 : len); break;
                case 1: ret = binson_write_name(&w, NULL); break;
                default: ret = binson_write_string(&w, NULL); break;
                }
                vb_u8(t, 0xAA); vb_u8(t, ret);
            }
            vb_u8(t, ret); vb_u8(t, (uint8_t)w.error_flags); t_u64(t, binson_writer_get_counter(&w));
        }
        if (w.error_flags == BINSON_ERROR_NONE && binson_writer_get_counter(&w) >= 24 && binson_writer_get_counter(&w) + 64 < cap) {
            /* in-place moves inside the writer's own buffer, both directions (the writer copies with memmove) */
            size_t u = binson_writer_get_counter(&w);
            bool r1 = binson_write_raw(&w, dst + u - 8, 20);          /* src < dst < src+len */
            size_t u2 = binson_writer_get_counter(&w);
            memset(dst + u2 + 3, 0x33, 30);
            bool r2 = binson_write_bytes(&w, dst + u2 + 3, 30);       /* source just above its destination */
            vb_u8(t, r1); vb_u8(t, r2);
        }
        size_t used = binson_writer_get_counter(&w);
        vb_put(t, dst, used < cap ? used : cap);
        if (w.error_flags == BINSON_ERROR_NONE) { vb_u8(t, binson_writer_verify(&w)); }
        vb_u8(t, binson_writer_reset(&w)); vb_u8(t, (uint8_t)w.error_flags);
        free(dst);
        kinds[3]++;
    }
    /* 4. valid documents: decode -> encode through parser_to_writer of the root's children */
    free(buf); free(st); free(p);
    vb_free(&d);
}

int main(int argc, char **argv)
{
    vw_init(argc, argv);
    bool dump = strstr(VA.opt, "dump") != NULL;
#ifdef BINSON_PARSER_WITH_PRINT
    capfd = vw_capture_stdout();
#endif
    char path[1024];
    snprintf(path, sizeof path, "%s/xs-%llu.bin", VA.outdir, (unsigned long long)VA.wid);
    FILE *f = dump ? NULL : fopen(path, VA.start ? "ab" : "wb");
    vrng r;
    vbuf t; memset(&t, 0, sizeof t);
    uint64_t kinds[4] = { 0, 0, 0, 0 };
    for (uint64_t k = VA.start; k < VA.start + VA.cases; k++) {
        vw_case(k);
        vr_seed(&r, VA.seed, VA.wid, k);
        va_reset();
        vb_reset(&t);
        scenario(&r, &t, kinds);
        uint64_t h = vh_hash(t.p, t.n, k);
        if (f) fwrite(&h, 8, 1, f);
        if (dump) { vbuf o; memset(&o, 0, sizeof o); vb_hex(&o, t.p, t.n, 1 << 20); fprintf(stderr, "TRANSCRIPT case=%llu bytes=%zu %s\n", (unsigned long long)k, t.n, vb_cstr(&o)); vb_free(&o); }
        vw_nontrivial(h);
        vw_count("transcript_bytes", t.n);
        if (vw_want_sample()) { char s[200]; snprintf(s, sizeof s, "scenario wid=%llu case=%llu: transcript of %zu bytes (init/verify, %s scripted calls, to_string/print, writer list) -> digest %016llx", (unsigned long long)VA.wid, (unsigned long long)k, t.n, "8-39", (unsigned long long)h); vw_sample(s); }
    }
    if (f) fclose(f);
    vw_count("documents_valid", kinds[0]); vw_count("documents_invalid", kinds[1]); vw_count("text_scenarios", kinds[2]); vw_count("writer_scenarios", kinds[3]);
    return vw_finish();
}
