/* w_stream.c — arbitrary bytes, adaptive traversals.
 *   c08  : a complete protocol-following traversal succeeds with error NONE  <=>  verify accepts (per strategy)
 *   c09p : from the first call that sets an error code, every advancing call fails, every getter is neutral,
 *          the indicator stays set (until reset / init / verify)
 */
#define _GNU_SOURCE
#include "vh.h"

enum { ST_ENTER_ALL = 0, ST_SKIP_ALL, ST_LOOKUPS, ST_RAW_ALL, ST_LEAVE_FIRST, ST_TOWRITER_ALL, ST_RANDOM_A, ST_RANDOM_B, ST_N };
static const char *STNAME[] = { "enter-everything", "skip-everything", "lookups-only", "get_raw-everything", "leave-at-first-opportunity", "to_writer-everything", "random-mix-a", "random-mix-b" };
static const int DEPTHS[] = { 1, 2, 3, 10, 255 };

typedef struct {
    binson_parser *p; binson_state *st; int max_depth;
    uint8_t *buf; size_t n;
    int stack[1700]; int sp;
    vbuf trace; bool tracing;
    uint64_t steps, capped, histories;
    /* c09 */
    bool watch; bool tripped; int err_class; int after_calls; const char *trip_call;
} sctx;

static void stream_noop_cb(binson_parser *p, uint16_t next_state, void *ctx) { (void)p; (void)next_state; (void)ctx; }
static void tr(sctx *c, const char *s, int ret) { if (c->tracing) vb_printf(&c->trace, "%s=%d ", s, ret); }

/* one adaptive traversal; returns the conjunction of init/enter/leave/get_raw results and error NONE at the end.
 * *inconclusive is set when the step cap ended it. */
static bool traverse(sctx *c, int root_kind, int strategy, vrng *r, bool *inconclusive)
{
    binson_parser *p = c->p;
    *inconclusive = false;
    c->sp = 0;
    bool ok = root_kind == K_OBJ ? binson_parser_init_object(p, c->buf, c->n) : binson_parser_init_array(p, c->buf, c->n);
    tr(c, "init", ok);
    if (!ok) return false;
    if (vrn(r, 5) == 0) { p->cb = stream_noop_cb; p->cb_context = NULL; }      /* an application-installed token callback must not change the verdict */
    if (vrn(r, 4) == 0) {
        /* the same parser object was used before: a walk abandoned somewhere, then reset (which succeeds whenever init did) */
        bool b = root_kind == K_OBJ ? binson_parser_go_into_object(p) : binson_parser_go_into_array(p);
        for (uint32_t i = 0; b && i < 1 + vrn(r, 10); i++) {
            if (!binson_parser_next(p)) break;
            binson_type ty = binson_parser_get_type(p);
            if (ty == BINSON_TYPE_OBJECT && vrn(r, 3)) binson_parser_go_into_object(p);
            else if (ty == BINSON_TYPE_ARRAY && vrn(r, 3)) binson_parser_go_into_array(p);
        }
        bool rs = binson_parser_reset(p);
        tr(c, "[abandoned walk] reset", rs);
        if (!rs) return false;
        c->histories++;
    }
    ok = root_kind == K_OBJ ? binson_parser_go_into_object(p) : binson_parser_go_into_array(p);
    tr(c, "go_into(root)", ok);
    if (!ok) return false;
    c->stack[c->sp++] = root_kind;
    uint64_t cap = 4 * (uint64_t)c->n + 64, steps = 0;
    uint32_t p_enter = 500, p_raw = 150, p_leave = 60, p_field = 200;
    if (strategy == ST_RANDOM_B) { p_enter = 200 + vrn(r, 700); p_raw = vrn(r, 400); p_leave = vrn(r, 300); p_field = vrn(r, 600); }
    static const char *names[] = { "", "a", "aa", "ab", "b", "bx", "c", "m", "\x80", "\xff", "zz" };
    uint32_t name_i = 0;
    bool entered_once = false;
    while (c->sp > 0) {
        if (++steps > cap) { *inconclusive = true; c->capped++; return false; }
        int top = c->stack[c->sp - 1];
        bool do_leave = false;
        if (strategy == ST_SKIP_ALL) do_leave = true;
        else if (strategy == ST_LEAVE_FIRST && entered_once && c->sp > 1) do_leave = true;
        else if ((strategy == ST_RANDOM_A || strategy == ST_RANDOM_B) && vrp(r, p_leave)) do_leave = true;
        bool got;
        if (!do_leave) {
            bool use_field = top == K_OBJ && (strategy == ST_LOOKUPS || ((strategy == ST_RANDOM_A || strategy == ST_RANDOM_B) && vrp(r, p_field)));
            if (use_field) {
                if (strategy == ST_LOOKUPS && name_i >= 11) { do_leave = true; got = false; }
                else {
                    const char *nm = strategy == ST_LOOKUPS ? names[name_i++] : names[vrn(r, 11)];
                    if (vrn(r, 2)) got = binson_parser_field(p, nm); else got = binson_parser_field_with_length(p, nm, strlen(nm));
                    tr(c, "field", got);
                    if (!got && strategy != ST_LOOKUPS && vrn(r, 3) == 0) do_leave = true;   /* a lookup answering false is an answer, go on or leave */
                }
            } else {
                got = binson_parser_next(p);
                tr(c, "next", got);
                if (!got) do_leave = true;
            }
            if (!do_leave && got) {
                if (top == K_OBJ && vrn(r, 3) == 0) (void)binson_parser_get_name(p);       /* applications read the names while iterating an object */
                binson_type t = binson_parser_get_type(p);
                if (t == BINSON_TYPE_OBJECT || t == BINSON_TYPE_ARRAY) {
                    int action;  /* 0 skip, 1 enter, 2 get_raw, 3 to_writer */
                    switch (strategy) {
                    case ST_ENTER_ALL: action = 1; break;
                    case ST_LOOKUPS: action = vrn(r, 2); break;
                    case ST_RAW_ALL: action = 2; break;
                    case ST_TOWRITER_ALL: action = 3; break;
                    case ST_LEAVE_FIRST: action = 1; break;
                    default: action = vrp(r, p_enter) ? 1 : (vrp(r, p_raw) ? 2 + (int)vrn(r, 2) : 0);
                    }
                    if (action == 1) {
                        bool e = t == BINSON_TYPE_OBJECT ? binson_parser_go_into_object(p) : binson_parser_go_into_array(p);
                        tr(c, t == BINSON_TYPE_OBJECT ? "go_into_object" : "go_into_array", e);
                        if (!e) return false;
                        if (c->sp >= 1699) { *inconclusive = true; return false; }
                        c->stack[c->sp++] = t == BINSON_TYPE_OBJECT ? K_OBJ : K_ARR;
                        entered_once = true;
                        if (strategy == ST_LOOKUPS) name_i = 0;
                    } else if (action == 2) {
                        bbuf raw; raw.bptr = NULL; raw.bsize = 0;
                        bool e = binson_parser_get_raw(p, &raw);
                        tr(c, "get_raw", e);
                        if (!e) return false;
                    } else if (action == 3) {
                        uint8_t *dst = (uint8_t *)malloc(c->n + 1);
                        binson_writer w; binson_writer_init(&w, dst, c->n);
                        bool e = binson_parser_to_writer(p, &w);
                        free(dst);
                        tr(c, "to_writer", e);
                        if (!e) return false;
                    }
                }
            }
        }
        if (do_leave) {
            bool l = top == K_OBJ ? binson_parser_leave_object(p) : binson_parser_leave_array(p);
            tr(c, top == K_OBJ ? "leave_object" : "leave_array", l);
            if (!l) return false;
            c->sp--;
            if (strategy == ST_LOOKUPS) name_i = 11;     /* ascending series ended in the parent: just walk on */
        }
    }
    c->steps += steps;
    return p->error_flags == BINSON_ERROR_NONE;
}

static void gen_bytes(vrng *r, vbuf *d, int *root, int *depth, char *origin, size_t osz, bool want_errors)
{
    *root = vrn(r, 3) ? K_OBJ : K_ARR;
    *depth = DEPTHS[vrn(r, 5)];
    uint32_t kind = vrn(r, 100);
    if (vncorpus && kind < 8) {
        vcorp *f = &vcorpus[vrn(r, (uint32_t)vncorpus)];
        vb_put(d, f->p, f->n); *root = K_OBJ;
        snprintf(origin, osz, "corpus %s", f->name);
        return;
    }
    if (kind < 15) { vm_soup(r, d, *root, 1 + (int)vrn(r, 12)); snprintf(origin, osz, "token soup"); return; }
    if (kind == 15) {
        /* length-prefix family (as in w_verify.c): prefix width x stored length at the signed/unsigned boundaries x payload present for either reading */
        static const uint32_t LV[] = { 0x00, 0x01, 0x7f, 0x80, 0xff, 0x100, 0x7fff, 0x8000, 0x8001, 0xff80, 0xffff, 0x10000, 0x11170, 0xffff8000u, 0xffffffffu, 0x80000000u };
        uint32_t un = LV[vrn(r, sizeof LV / sizeof LV[0])];
        int w = 1 << vrn(r, 3);                       /* 1, 2, 4 */
        if (w == 1) un &= 0xffu; else if (w == 2) un &= 0xffffu;
        int where = (int)vrn(r, 4), fill = (int)vrn(r, 3);
        uint32_t pay = fill == 0 ? un : fill == 1 ? (un & 0xffffu) : 0;
        if (pay > 80000) pay = 70001;
        *root = where == 3 ? K_ARR : K_OBJ;
        vb_u8(d, where == 3 ? 0x42 : 0x40);
        if (where < 2) { vb_u8(d, 0x14); vb_u8(d, 0x01); vb_u8(d, 'a'); }
        vb_u8(d, (uint8_t)((where == 1 ? 0x18 : 0x14) + (w == 1 ? 0 : w == 2 ? 1 : 2)));
        for (int b = 0; b < w; b++) vb_u8(d, (uint8_t)(un >> (8 * b)));
        for (uint32_t b = 0; b < pay; b++) vb_u8(d, 'x');
        if (where == 2) vb_u8(d, 0x44);
        vb_u8(d, where == 3 ? 0x43 : 0x41);
        if (*depth < 2) *depth = 2;
        snprintf(origin, osz, "length prefix family: width %d stored 0x%x payload %u", w, (unsigned)un, (unsigned)pay);
        vw_count("length_prefix_documents", 1);
        return;
    }
    vgen g; vg_default(&g, *root);
    g.max_nodes = 3 + (int)vrn(r, vrn(r, 5) ? 24 : 200);
    g.container_permille = 450;
    g.hostile_names = vrn(r, 2);
    if (vrn(r, 6) == 0) { g.max_obj_depth = 12; g.container_permille = 800; g.max_width = 3; }
    vnode *t = vrn(r, 60) == 0 ? vt_ladder(r, *root, 1 + (int)vrn(r, 256), 1 + (int)vrn(r, 256)) : vt_gen(r, &g);
    vt_encode(t, d);
    /* depth at / below / above what the document needs */
    int need = 0;
    { /* object levels */
        struct { const vnode *n; int od; } stk[2048]; int sp = 0; stk[sp].n = t; stk[sp++].od = (*root == K_ARR);
        while (sp) { sp--; const vnode *n = stk[sp].n; int here = stk[sp].od + (n->kind == K_OBJ); if (here > need) need = here; for (uint32_t i = 0; i < n->nkids && sp < 2040; i++) { stk[sp].n = n->kids[i]; stk[sp++].od = here; } }
    }
    uint32_t dc = vrn(r, 10);
    if (dc < 3) *depth = need; else if (dc < 5) *depth = need - 1; else if (dc < 6) *depth = need + 1;
    if (*depth < 1) *depth = 1;
    if (*depth > 255) *depth = 255;
    if (kind < (want_errors ? 30u : 50u)) { snprintf(origin, osz, "valid document (needs %d levels)", need); return; }
    int nm = 1 + (int)vrn(r, 3);
    for (int i = 0; i < nm; i++) vm_mutate(r, d);
    snprintf(origin, osz, "valid document + %d mutation(s)", nm);
}

static void ctx_alloc(sctx *c, const vbuf *d, int depth)
{
    c->n = d->n; c->buf = vg_exact(c->n);
    if (c->n) memcpy(c->buf, d->p, c->n);
    c->max_depth = depth;
    c->p = (binson_parser *)malloc(sizeof(binson_parser));
    c->st = (binson_state *)malloc(sizeof(binson_state) * (size_t)depth);
}
static void ctx_fresh(sctx *c, vrng *r)
{
    uint8_t f = (uint8_t)vr64(r);
    memset(c->p, f, sizeof(binson_parser)); memset(c->st, (uint8_t)~f, sizeof(binson_state) * (size_t)c->max_depth);
    c->p->state = c->st; c->p->max_depth = (uint_fast8_t)c->max_depth;
}
static void ctx_release(sctx *c) { vg_free(c->buf, c->n); free(c->p); free(c->st); vb_free(&c->trace); }

static void case_c08(vrng *r)
{
    vbuf d; memset(&d, 0, sizeof d);
    int root, depth; char origin[100];
    gen_bytes(r, &d, &root, &depth, origin, sizeof origin, false);
    sctx c; memset(&c, 0, sizeof c);
    ctx_alloc(&c, &d, depth);
    ctx_fresh(&c, r);
    bool V = (root == K_OBJ ? binson_parser_init_object(c.p, c.buf, c.n) : binson_parser_init_array(c.p, c.buf, c.n)) && binson_parser_verify(c.p);
    binson_err verr = c.p->error_flags;
    vw_count(V ? "documents_valid" : "documents_invalid", 1);
    int nstrat = VA.tier ? 16 : 8;
    for (int s = 0; s < nstrat && !vw_stop(); s++) {
        int strategy = s < ST_N ? s : (s & 1 ? ST_RANDOM_B : ST_RANDOM_A);
        vrng r2 = *r; r2.s += (uint64_t)s * 7919;
        vrng r2copy = r2;
        ctx_fresh(&c, r);
        bool inc;
        bool T = traverse(&c, root, strategy, &r2, &inc);
        vw_count("traversals", 1);
        if (inc) { vw_count("traversals_capped", 1); continue; }
        if (T != V) {
            /* re-run with tracing for the report */
            c.tracing = true; vb_reset(&c.trace);
            ctx_fresh(&c, r);
            bool inc2; r2 = r2copy;
            binson_err terr;
            bool T2 = traverse(&c, root, strategy, &r2, &inc2);
            terr = c.p->error_flags;
            c.tracing = false;
            vbuf o; memset(&o, 0, sizeof o);
            vb_printf(&o, "strategy %s finished %s (error_flags=%s) but verify says %s (error_flags=%s)%s\n%s-rooted, max_depth=%d, %zu bytes (%s): ",
                      STNAME[strategy], T ? "with every call successful and error NONE" : "with a failed call or an error", verr_name((int)terr), V ? "valid" : "invalid", verr_name((int)verr),
                      T2 == T ? "" : " [not reproduced on re-run]", vkind_name(root), depth, c.n, origin);
            vb_hex(&o, d.p, d.n, 300);
            vb_printf(&o, "\ncalls: %s", c.trace.n ? vb_cstr(&c.trace) : "");
            char sig[120]; snprintf(sig, sizeof sig, "c08:%s:%s", V ? "traversal-fails-on-valid" : "traversal-accepts-invalid", STNAME[strategy]);
            vw_violation(sig, "%s", vb_cstr(&o));
            vb_free(&o);
        }
    }
    vw_count("traversal_calls", c.steps);
    vw_count("traversals_after_abandoned_walk_and_reset", c.histories);
    if (d.n >= 3) vw_nontrivial(vh_hash(d.p, d.n, (uint64_t)(root * 1000 + depth)));
    if (vw_want_sample() && d.n > 6 && d.n < 60) {
        vbuf s; memset(&s, 0, sizeof s);
        vb_printf(&s, "%s: ", origin); vb_hex(&s, d.p, d.n, 60);
        vb_printf(&s, " %s-rooted max_depth=%d: verify=%d, %d traversal strategies agree", vkind_name(root), depth, V, nstrat);
        vw_sample(vb_cstr(&s)); vb_free(&s);
    }
    ctx_release(&c); vb_free(&d);
}

/* --------------------------------------------------------------------- C09 -- */
enum { C_NEXT = 0, C_NEXT_ENSURE, C_FIELD, C_FIELD_LEN, C_FIELD_ENSURE, C_FIELD_ENSURE_LEN, C_GO_OBJ, C_GO_ARR, C_LEAVE_OBJ, C_LEAVE_ARR, C_GET_RAW, C_TO_WRITER,
       C_GET_TYPE, C_GET_NAME, C_GET_STRING, C_GET_BYTES, C_GET_INT, C_GET_DOUBLE, C_GET_BOOL, C_STR_EQ, C_N };
static const char *CNAME[] = { "next", "next_ensure", "field", "field_with_length", "field_ensure", "field_ensure_with_length", "go_into_object", "go_into_array", "leave_object", "leave_array",
                               "get_raw", "to_writer", "get_type", "get_name", "get_string_bbuf", "get_bytes_bbuf", "get_integer", "get_double", "get_boolean", "string_equals" };

/* after the error: 20 arbitrary calls, each checked */
static bool after_error(sctx *c, vrng *r, const char *origin, const vbuf *d, const char *trip)
{
    binson_parser *p = c->p;
    int cls = (int)p->error_flags;
    for (int i = 0; i < 20; i++) {
        int k = (int)vrn(r, C_N);
        bool ret = false, neutral = true, adv = k <= C_TO_WRITER;
        switch (k) {
        case C_NEXT: ret = binson_parser_next(p); break;
        case C_NEXT_ENSURE: ret = binson_parser_next_ensure(p, (binson_type)(1 + vrn(r, 9))); break;
        case C_FIELD: ret = binson_parser_field(p, "a"); break;
        case C_FIELD_LEN: ret = binson_parser_field_with_length(p, "ab", 2); break;
        case C_FIELD_ENSURE: ret = binson_parser_field_ensure(p, "b", BINSON_TYPE_INTEGER); break;
        case C_FIELD_ENSURE_LEN: ret = binson_parser_field_ensure_with_length(p, "c", 1, BINSON_TYPE_STRING); break;
        case C_GO_OBJ: ret = binson_parser_go_into_object(p); break;
        case C_GO_ARR: ret = binson_parser_go_into_array(p); break;
        case C_LEAVE_OBJ: ret = binson_parser_leave_object(p); break;
        case C_LEAVE_ARR: ret = binson_parser_leave_array(p); break;
        case C_GET_RAW: { bbuf raw; raw.bptr = NULL; raw.bsize = 0; ret = binson_parser_get_raw(p, &raw); break; }
        case C_TO_WRITER: { uint8_t tmp[64]; binson_writer w; binson_writer_init(&w, tmp, sizeof tmp); ret = binson_parser_to_writer(p, &w); if (binson_writer_get_counter(&w) != 0) neutral = false; break; }
        case C_GET_TYPE: neutral = binson_parser_get_type(p) == BINSON_TYPE_NONE; break;
        case C_GET_NAME: neutral = binson_parser_get_name(p) == NULL; break;
        case C_GET_STRING: neutral = binson_parser_get_string_bbuf(p) == NULL; break;
        case C_GET_BYTES: neutral = binson_parser_get_bytes_bbuf(p) == NULL; break;
        case C_GET_INT: neutral = binson_parser_get_integer(p) == 0; break;
        case C_GET_DOUBLE: { double g = binson_parser_get_double(p); uint64_t b; memcpy(&b, &g, 8); neutral = b == 0; break; }
        case C_GET_BOOL: neutral = binson_parser_get_boolean(p) == false; break;
        case C_STR_EQ: neutral = binson_parser_string_equals(p, "") == false; break;
        }
        char ctrn[56]; snprintf(ctrn, sizeof ctrn, "after_%s_%s", verr_name(cls), CNAME[k]); vw_count(ctrn, 1);
        const char *bad = NULL; char sig[140];
        if (adv && ret) { bad = "an advancing call returned true"; snprintf(sig, sizeof sig, "c09p:advances-after-%s:%s", verr_name(cls), CNAME[k]); }
        else if (!neutral) { bad = "a getter returned a non-neutral result"; snprintf(sig, sizeof sig, "c09p:getter-after-%s:%s", verr_name(cls), CNAME[k]); }
        else if (p->error_flags == BINSON_ERROR_NONE) { bad = "the error indicator was cleared"; snprintf(sig, sizeof sig, "c09p:cleared-after-%s:%s", verr_name(cls), CNAME[k]); }
        if (bad) {
            vbuf o; memset(&o, 0, sizeof o);
            vb_printf(&o, "after %s set error %s: %s — call #%d after the error: %s (now error_flags=%s)\nmax_depth=%d, %zu bytes (%s): ", trip, verr_name(cls), bad, i + 1, CNAME[k], verr_name((int)p->error_flags), c->max_depth, c->n, origin);
            vb_hex(&o, d->p, d->n, 300);
            vw_violation(sig, "%s", vb_cstr(&o)); vb_free(&o);
            return false;
        }
    }
    return true;
}

static void case_c09(vrng *r, uint64_t global)
{
    vbuf d; memset(&d, 0, sizeof d);
    int root = K_OBJ, depth = 10; char origin[120];
    uint32_t scen = (uint32_t)(global % 9);
    vgen g; vg_default(&g, K_OBJ);
    g.max_nodes = 4 + (int)vrn(r, 30); g.container_permille = 450;
    const char *directed = NULL;
    switch (scen) {
    case 0: { /* RANGE: truncation, closing byte kept */
        root = vrn(r, 3) ? K_OBJ : K_ARR; g.root_kind = root; g.big_permille = 150;
        vnode *t = vt_gen(r, &g); vt_encode(t, &d);
        if (d.n > 3) { uint8_t last = d.p[d.n - 1]; d.n = 2 + vrn(r, (uint32_t)d.n - 2); d.p[d.n - 1] = last; }
        snprintf(origin, sizeof origin, "truncated document"); break;
    }
    case 1: { /* MAX_DEPTH_OBJECT */
        root = vrn(r, 2) ? K_OBJ : K_ARR; depth = 1 + (int)vrn(r, 4);
        vnode *t = vt_ladder(r, root, depth + 1 + (int)vrn(r, 3), 3); vt_encode(t, &d);
        snprintf(origin, sizeof origin, "object nesting above max_depth=%d", depth); break;
    }
    case 2: { /* MAX_DEPTH_ARRAY: 256+ arrays */
        root = vrn(r, 2) ? K_OBJ : K_ARR;
        vb_u8(&d, root == K_OBJ ? 0x40 : 0x42);
        if (root == K_OBJ) { vb_u8(&d, 0x14); vb_u8(&d, 0x01); vb_u8(&d, 'a'); }
        int k = 255 + (int)vrn(r, 4) + (root == K_OBJ);
        for (int i = 0; i < k; i++) vb_u8(&d, 0x42);
        for (int i = 0; i < k; i++) vb_u8(&d, 0x43);
        vb_u8(&d, root == K_OBJ ? 0x41 : 0x43);
        snprintf(origin, sizeof origin, "array nesting above 255"); break;
    }
    case 3: directed = "wrong-type"; /* fallthrough: valid doc, error provoked by an _ensure call */
    case 4: if (!directed) directed = "null-name";
    case 5: {
        if (!directed) directed = "state";
        root = scen == 5 ? K_ARR : (vrn(r, 3) ? K_OBJ : K_ARR); g.root_kind = root;
        vnode *t = vt_gen(r, &g); vt_encode(t, &d);
        snprintf(origin, sizeof origin, "valid document, error provoked by the caller (%s)", directed); break;
    }
    default: { /* FORMAT and friends: mutants */
        root = vrn(r, 3) ? K_OBJ : K_ARR; g.root_kind = root;
        vnode *t = vt_gen(r, &g); vt_encode(t, &d);
        int nm = 1 + (int)vrn(r, 2); for (int i = 0; i < nm; i++) vm_mutate(r, &d);
        depth = DEPTHS[vrn(r, 5)];
        snprintf(origin, sizeof origin, "mutated document");
    }
    }
    sctx c; memset(&c, 0, sizeof c);
    ctx_alloc(&c, &d, depth);
    ctx_fresh(&c, r);
    binson_parser *p = c.p;
    const char *trip = NULL, *silent = NULL;
    bool ok = root == K_OBJ ? binson_parser_init_object(p, c.buf, c.n) : binson_parser_init_array(p, c.buf, c.n);
    if (!ok) { if (p->error_flags != BINSON_ERROR_NONE) trip = "init"; }
    else if (vrn(r, 5) == 0 && !vrecognise(d.p, d.n, root, depth).ok) {
        /* verify-based calls that reject the bytes must leave the indicator set (a too small text buffer alone is not an error) */
        const char *which = NULL;
        if (vrn(r, 2)) { if (!binson_parser_verify(p) && p->error_flags == BINSON_ERROR_NONE) which = "verify"; trip = "verify on malformed bytes"; }
        else { size_t sz = 0; char tb[64]; bool big = vrn(r, 2); sz = big ? sizeof tb : 0; if (!binson_parser_to_string(p, big ? tb : NULL, &sz, false) && p->error_flags == BINSON_ERROR_NONE) which = "to_string"; trip = "to_string on malformed bytes"; }
        if (which) {
            vbuf o; memset(&o, 0, sizeof o);
            vb_printf(&o, "%s rejected malformed bytes (returned false) but error_flags is NONE afterwards: the rejection is not detectable by a check of the indicator\nmax_depth=%d, %zu bytes (%s): ", which, depth, d.n, origin);
            vb_hex(&o, d.p, d.n, 300);
            char sig[100]; snprintf(sig, sizeof sig, "c09p:rejects-without-error:%s", which);
            vw_violation(sig, "%s", vb_cstr(&o)); vb_free(&o);
            trip = NULL;
        }
        vw_count("verify_based_rejections_checked", 1);
    }
    else {
        /* random adaptive walk, watching the public error field after every call */
        int stack[300]; int sp = 0;
        ok = root == K_OBJ ? binson_parser_go_into_object(p) : binson_parser_go_into_array(p);
        if (p->error_flags != BINSON_ERROR_NONE) trip = "go_into(root)";
        else if (ok) {
            stack[sp++] = root;
            uint32_t when = vrn(r, 12);
            for (uint32_t step = 0; step < 400 && sp > 0 && !trip; step++) {
                int top = stack[sp - 1];
                if (directed && step == when) {
                    if (!strcmp(directed, "wrong-type")) {
                        if (top == K_OBJ && vrn(r, 2)) { binson_parser_field_ensure(p, "a", (binson_type)77); if (p->error_flags != BINSON_ERROR_NONE) trip = "field_ensure(wrong type)"; }
                        else { binson_parser_next_ensure(p, (binson_type)77); if (p->error_flags != BINSON_ERROR_NONE) trip = "next_ensure(wrong type)"; }
                    } else if (!strcmp(directed, "null-name")) {
                        binson_parser_field_with_length(p, NULL, 3); if (p->error_flags != BINSON_ERROR_NONE) trip = "field_with_length(NULL)";
                    } else if (top == K_ARR && sp == 1) {
                        binson_parser_next(p);
                        if (p->error_flags == BINSON_ERROR_NONE) { binson_parser_get_name(p); if (p->error_flags != BINSON_ERROR_NONE) trip = "get_name in a root array"; }
                    }
                    if (trip) break;
                }
                bool got = (top == K_OBJ && vrn(r, 4) == 0) ? binson_parser_field(p, vrn(r, 2) ? "a" : "m") : binson_parser_next(p);
                if (p->error_flags != BINSON_ERROR_NONE) { trip = "next/field"; break; }
                if (!got && top == K_OBJ && vrn(r, 3)) got = binson_parser_next(p);
                if (p->error_flags != BINSON_ERROR_NONE) { trip = "next"; break; }
                if (!got || vrn(r, 15) == 0) {
                    bool l = top == K_OBJ ? binson_parser_leave_object(p) : binson_parser_leave_array(p);
                    if (p->error_flags != BINSON_ERROR_NONE) { trip = top == K_OBJ ? "leave_object" : "leave_array"; break; }
                    if (!l) { silent = top == K_OBJ ? "leave_object" : "leave_array"; break; }
                    sp--; continue;
                }
                binson_type t = binson_parser_get_type(p);
                if (t == BINSON_TYPE_OBJECT || t == BINSON_TYPE_ARRAY) {
                    uint32_t a = vrn(r, 10);
                    if (a < 6 && sp < 299) {
                        bool e = t == BINSON_TYPE_OBJECT ? binson_parser_go_into_object(p) : binson_parser_go_into_array(p);
                        if (p->error_flags != BINSON_ERROR_NONE) { trip = "go_into"; break; }
                        if (!e) { silent = "go_into"; break; }
                        stack[sp++] = t == BINSON_TYPE_OBJECT ? K_OBJ : K_ARR;
                    } else if (a < 8) {
                        bbuf raw; raw.bptr = NULL; raw.bsize = 0; bool gr = binson_parser_get_raw(p, &raw);
                        if (p->error_flags != BINSON_ERROR_NONE) { trip = "get_raw"; break; }
                        if (!gr) { silent = "get_raw"; break; }
                    }
                }
            }
        }
    }
    if (silent && !trip) {
        /* a protocol-following enter / leave / get_raw on a container failed but left no error: a single check at the end would not see it */
        vbuf o; memset(&o, 0, sizeof o);
        vb_printf(&o, "%s on a container the parser itself reported returned false with error_flags=NONE: the failure is not detectable by a check at the end\nmax_depth=%d, %zu bytes (%s): ", silent, depth, d.n, origin);
        vb_hex(&o, d.p, d.n, 300);
        char sig[100]; snprintf(sig, sizeof sig, "c09p:failed-without-error:%s", silent);
        vw_violation(sig, "%s", vb_cstr(&o)); vb_free(&o);
    }
    if (trip) {
        char cn[64]; snprintf(cn, sizeof cn, "errors_%s", verr_name((int)p->error_flags)); vw_count(cn, 1);
        after_error(&c, r, origin, &d, trip);
        vw_count("episodes", 1);
        vw_nontrivial(vh_hash(d.p, d.n, (uint64_t)p->error_flags * 131 + (uint64_t)depth));
        if (vw_want_sample() && d.n < 50) {
            vbuf s; memset(&s, 0, sizeof s);
            vb_printf(&s, "%s: ", origin); vb_hex(&s, d.p, d.n, 50); vb_printf(&s, " -> %s latched at %s, 20 following calls all failed / neutral", verr_name((int)p->error_flags), trip);
            vw_sample(vb_cstr(&s)); vb_free(&s);
        }
    } else vw_count("no_error_reached", 1);
    ctx_release(&c); vb_free(&d);
}

int main(int argc, char **argv)
{
    vw_init(argc, argv);
    vcorpus_load(VA.repo);
    vrng r;
    bool c08 = !strcmp(VA.mode, "c08");
    for (uint64_t k = VA.start; k < VA.start + VA.cases && !vw_stop(); k++) {
        vw_case(k);
        vr_seed(&r, VA.seed, VA.wid, k);
        va_reset();
        if (c08) case_c08(&r); else case_c09(&r, k * VA.nworkers + VA.wid);
    }
    return vw_finish();
}
