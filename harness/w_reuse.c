/* w_reuse.c — C12 (parser part): nothing carries over.
 * Phase A abuses a parser object (arbitrary document, abandoned script, maybe an error, maybe garbage over
 * struct and state array). Phase B re-targets it (init_object / init_array on a new document, reset, verify,
 * verify twice) and runs a fixed script; the transcript of every observable result must be identical to the
 * transcript of the same script on a fresh (zero-filled) parser object.
 */
#define _GNU_SOURCE
#include "vh.h"

static const int DEPTHS[] = { 1, 2, 3, 4, 10, 40, 255 };

static uint64_t cb_hits;
static void count_cb(binson_parser *p, uint16_t next_state, void *ctx) { (void)p; (void)next_state; (*(uint64_t *)ctx)++; }

static void make_doc(vrng *r, vbuf *d, int *root)
{
    *root = vrn(r, 3) ? K_OBJ : K_ARR;
    uint32_t k = vrn(r, 100);
    if (k < 8) { vm_soup(r, d, *root, 1 + (int)vrn(r, 10)); return; }
    vgen g; vg_default(&g, *root);
    g.max_nodes = 3 + (int)vrn(r, vrn(r, 4) ? 20 : 120);
    g.container_permille = 450; g.hostile_names = vrn(r, 2);
    vnode *t = vrn(r, 50) == 0 ? vt_ladder(r, *root, 1 + (int)vrn(r, 60), 1 + (int)vrn(r, 256)) : vt_gen(r, &g);
    vt_encode(t, d);
    if (k < 40) { int nm = 1 + (int)vrn(r, 2); for (int i = 0; i < nm; i++) vm_mutate(r, d); }
    if (vrn(r, 30) == 0) d->n = vrn(r, 3);
}

static void one_case(vrng *r)
{
    vbuf da, db; memset(&da, 0, sizeof da); memset(&db, 0, sizeof db);
    int roota, rootb;
    make_doc(r, &da, &roota);
    make_doc(r, &db, &rootb);
    int depth = DEPTHS[vrn(r, 7)];
    uint8_t *bufa = vg_exact(da.n), *bufb = vg_exact(db.n);
    if (da.n) memcpy(bufa, da.p, da.n);
    if (db.n) memcpy(bufb, db.p, db.n);
    size_t stsz = sizeof(binson_state) * (size_t)depth;
    binson_parser *used = (binson_parser *)malloc(sizeof(binson_parser)), *fresh = (binson_parser *)calloc(1, sizeof(binson_parser));
    binson_state *sta = (binson_state *)malloc(stsz), *stf = (binson_state *)calloc(1, stsz);

    /* ---- phase A ---- */
    uint32_t fillkind = vrn(r, 4);
    memset(used, fillkind == 0 ? 0x00 : 0xFF, sizeof *used); memset(sta, fillkind == 0 ? 0x00 : 0xFF, stsz);
    used->state = sta; used->max_depth = (uint_fast8_t)depth;
    vsop opsA[40]; int na = (int)vrn(r, 40);
    vs_random(r, opsA, na, da.p, da.n, vrn(r, 2));
    vbuf junk; memset(&junk, 0, sizeof junk);
    vsctx cxa; memset(&cxa, 0, sizeof cxa);
    bool inita = roota == K_OBJ ? binson_parser_init_object(used, bufa, da.n) : binson_parser_init_array(used, bufa, da.n);
    bool prev_cb = inita && vrn(r, 5) == 0;
    if (prev_cb) { used->cb = count_cb; used->cb_context = &cb_hits; }      /* the previous user installed a token callback (public fields) */
    if (inita && vrn(r, 4) == 0) {
        /* the previous use was a complete traversal: enter the root, leave it (everything skipped and validated) */
        bool b = roota == K_OBJ ? binson_parser_go_into_object(used) : binson_parser_go_into_array(used);
        if (b) b = roota == K_OBJ ? binson_parser_leave_object(used) : binson_parser_leave_array(used);
        vw_count("previous_use_complete_traversal", 1);
    } else
    if (inita) for (int i = 0; i < na; i++) { vs_exec(used, bufa, da.n, &cxa, &opsA[i], &junk); vb_reset(&junk); }
    binson_err errA = used->error_flags;
    bool garbage = vrn(r, 3) == 0;
    if (garbage) {
        /* arbitrary bytes over struct and state array; the caller-owned configuration is restored */
        uint8_t style = (uint8_t)vrn(r, 3);
        for (size_t i = 0; i < sizeof *used; i++) ((uint8_t *)used)[i] = style == 0 ? 0xFF : style == 1 ? 0x01 : (uint8_t)vr64(r);
        for (size_t i = 0; i < stsz; i++) ((uint8_t *)sta)[i] = style == 0 ? 0xFF : style == 1 ? 0x01 : (uint8_t)vr64(r);
        used->state = sta; used->max_depth = (uint_fast8_t)depth;
    }

    /* ---- phase B ---- */
    uint32_t how = garbage ? 0 : vrn(r, 4);          /* after garbage only init is a defined restart */
    static const char *HOW[] = { "init on a new document", "reset", "verify", "verify twice" };
    const uint8_t *bb = bufb; size_t bn = db.n; int rb = rootb;
    vbuf tu, tf; memset(&tu, 0, sizeof tu); memset(&tf, 0, sizeof tf);
    vsctx cxu, cxf; memset(&cxu, 0, sizeof cxu); memset(&cxf, 0, sizeof cxf);
    fresh->state = stf; fresh->max_depth = (uint_fast8_t)depth;
    bool skip = false;
    bool samebuf = how == 0 && !garbage && vrn(r, 3) == 0;
    if (samebuf) {
        /* re-init on the very same buffer address and length, possibly as the other root kind, possibly with new content */
        bb = bufa; bn = da.n; rb = vrn(r, 3) ? roota : (roota == K_OBJ ? K_ARR : K_OBJ);
        if (da.n && vrn(r, 2)) { size_t at = vrn(r, (uint32_t)da.n); bufa[at] = (uint8_t)(bufa[at] ^ (1u << vrn(r, 8))); }
        vw_count("restart_init_same_buffer", 1);
    }
    if (how >= 1 && inita && da.n > 2 && vrn(r, 3) == 0) {
        /* the next message arrived in the same buffer (same length): content changes in place before reset / verify */
        size_t at = 1 + vrn(r, (uint32_t)da.n - 2);
        bufa[at] = (uint8_t)(bufa[at] ^ (1u << vrn(r, 8)));
        vw_count("restart_after_buffer_changed_in_place", 1);
    }
    cb_hits = 0;
    if (how == 0) {
        bool iu = rb == K_OBJ ? binson_parser_init_object(used, bb, bn) : binson_parser_init_array(used, bb, bn);
        bool ifr = rb == K_OBJ ? binson_parser_init_object(fresh, bb, bn) : binson_parser_init_array(fresh, bb, bn);
        vb_u8(&tu, iu); vb_u8(&tu, (uint8_t)used->error_flags); vb_u8(&tu, (uint8_t)binson_parser_get_depth(used));
        vb_u8(&tf, ifr); vb_u8(&tf, (uint8_t)fresh->error_flags); vb_u8(&tf, (uint8_t)binson_parser_get_depth(fresh));
    } else {
        /* same document: the fresh parser is initialised on it; the used one is reset / verified */
        bb = bufa; bn = da.n; rb = roota;
        if (!inita) skip = true;     /* nothing to reset: the used parser never accepted a buffer */
        else {
            bool ifr = rb == K_OBJ ? binson_parser_init_object(fresh, bb, bn) : binson_parser_init_array(fresh, bb, bn);
            bool ru, rf;
            /* a reset / verify that returns true promises the state a fresh init gives: the reference parser is only
             * initialised; when the restart call fails, the reference makes the same call and must fail the same way */
            if (how == 1) { ru = binson_parser_reset(used); rf = ru ? ifr : binson_parser_reset(fresh); }
            else {
                ru = binson_parser_verify(used); rf = ru ? ifr : binson_parser_verify(fresh);
                if (how == 3) { bool ru2 = binson_parser_verify(used); if (ru2 != ru) vw_violation("c12:verify-not-repeatable", "verify called twice in a row gave %d then %d", ru, ru2); }
                if (ru && used->buffer_used != 0) vw_violation("c12:verify-cursor", "a successful verify left the cursor at offset %zu", used->buffer_used);
                if (ru) vw_count("verify_true_restarts", 1);
            }
            vb_u8(&tu, ru); vb_u8(&tu, (uint8_t)used->error_flags); vb_u8(&tu, (uint8_t)binson_parser_get_depth(used));
            vb_u8(&tf, rf); vb_u8(&tf, (uint8_t)fresh->error_flags); vb_u8(&tf, (uint8_t)binson_parser_get_depth(fresh));
        }
    }
    vsop opsB[60]; int nb = 5 + (int)vrn(r, 55);
    vs_random(r, opsB, nb, bb, bn, vrn(r, 3) != 0);
    int diverged_at = -1;
    if (!skip) {
        if (tu.n != tf.n || memcmp(tu.p, tf.p, tu.n) != 0) diverged_at = 0;
        for (int i = 0; i < nb && diverged_at < 0; i++) {
            size_t m0 = tu.n;
            vs_exec(used, bb, bn, &cxu, &opsB[i], &tu);
            vs_exec(fresh, bb, bn, &cxf, &opsB[i], &tf);
            if (tu.n != tf.n || memcmp(tu.p + m0, tf.p + m0, tu.n - m0) != 0) diverged_at = i + 1;
        }
        vw_count("script_calls", (uint64_t)nb);
        char cn[48]; snprintf(cn, sizeof cn, "restart_%s", how == 0 ? "init" : how == 1 ? "reset" : "verify"); vw_count(cn, 1);
        if (errA != BINSON_ERROR_NONE) vw_count("restart_after_error", 1);
        if (garbage) vw_count("restart_after_garbage", 1);
    } else vw_count("skipped_no_prior_init", 1);
    if (!skip && how == 0 && prev_cb && cb_hits) {
        vw_violation("c12:callback-survives-init", "a token callback installed during the previous use was still invoked %llu times after binson_parser_init_*", (unsigned long long)cb_hits);
    }
    if (prev_cb) vw_count("previous_use_installed_callback", 1);
    if (diverged_at >= 0) {
        vbuf o; memset(&o, 0, sizeof o);
        vb_printf(&o, "a reused parser behaves differently from a fresh one after '%s' (first difference at %s %d)\nprevious use: %s-rooted %zu bytes ",
                  HOW[how], diverged_at ? "script call" : "the restart call itself", diverged_at, vkind_name(roota), da.n);
        vb_hex(&o, da.p, da.n, 120);
        vb_printf(&o, " init=%d, %d calls: ", inita, na); vs_describe(opsA, na, &o);
        vb_printf(&o, "(ended with error_flags=%s)%s\nnext document: %s-rooted max_depth=%d %zu bytes ", verr_name((int)errA), garbage ? " then garbage over struct+state" : "", vkind_name(rb), depth, bn);
        vb_hex(&o, bb, bn, 200);
        vb_printf(&o, "\nscript: "); vs_describe(opsB, diverged_at > 0 ? diverged_at : 0, &o);
        char sig[120]; snprintf(sig, sizeof sig, "c12:differs:%s:%s", how == 0 ? "init" : how == 1 ? "reset" : "verify", diverged_at ? vs_opname[opsB[diverged_at - 1].op] : "restart");
        vw_violation(sig, "%s", vb_cstr(&o));
        vb_free(&o);
    }
    if (!skip) {
        uint64_t h = vh_hash(da.p, da.n, vh_hash(bb, bn, (uint64_t)how * 31 + (uint64_t)depth));
        h = vh_hash(opsB, sizeof(vsop) * (size_t)nb, h);
        vw_nontrivial(h);
        if (vw_want_sample() && da.n < 40 && bn < 40 && nb < 14) {
            vbuf s; memset(&s, 0, sizeof s);
            vb_printf(&s, "after "); vb_hex(&s, da.p, da.n, 40); vb_printf(&s, " + %d calls (error %s%s) -> %s on ", na, verr_name((int)errA), garbage ? ", garbage" : "", HOW[how]); vb_hex(&s, bb, bn, 40);
            vb_printf(&s, " : "); vs_describe(opsB, nb, &s); vb_printf(&s, "-> transcript of %zu bytes identical to a fresh parser", tu.n);
            vw_sample(vb_cstr(&s)); vb_free(&s);
        }
    }
    vg_free(bufa, da.n); vg_free(bufb, db.n);
    vb_free(&tu); vb_free(&tf); vb_free(&junk); vb_free(&da); vb_free(&db);
    free(used); free(fresh); free(sta); free(stf);
}

int main(int argc, char **argv)
{
    vw_init(argc, argv);
    vrng r;
    for (uint64_t k = VA.start; k < VA.start + VA.cases && !vw_stop(); k++) {
        vw_case(k);
        vr_seed(&r, VA.seed, VA.wid, k);
        va_reset();
        one_case(&r);
    }
    return vw_finish();
}
