/* w_foot.c — C17: footprint monitors on the executions driven.
 *   alloc : allocator interposer (link with --wrap): no allocator call while a library call is in progress
 *   stack : painted alternate stack: stack high-water mark independent of nesting depth / payload size, under a budget
 *   seg   : library built as libbinson.so: its writable PT_LOAD segments are hashed before and after the workload
 *   inter : two sessions interleaved call by call give the transcripts of their solo runs
 *   tsan  : 8 threads with private objects and a shared read-only input (ThreadSanitizer build)
 *   cov   : the same generic workload + directed scenarios in a --coverage build (reach evidence; the driver runs gcov)
 */
#define _GNU_SOURCE
#include "vh.h"
#include <link.h>
#include <pthread.h>
#include <ucontext.h>
#include <unistd.h>

/* ------------------------------------------------------------ allocator interposer -- */
static volatile int in_lib;
static uint64_t alloc_hits; static char alloc_first[64];
#define HIT(name) do { if (in_lib) { if (!alloc_hits) snprintf(alloc_first, sizeof alloc_first, "%s", name); alloc_hits++; } } while (0)
#ifdef FOOT_WRAP
void *__real_malloc(size_t); void *__real_calloc(size_t, size_t); void *__real_realloc(void *, size_t); void __real_free(void *);
void *__real_aligned_alloc(size_t, size_t); int __real_posix_memalign(void **, size_t, size_t); char *__real_strdup(const char *); char *__real_strndup(const char *, size_t);
void *__real_mmap(void *, size_t, int, int, int, off_t); void *__real_sbrk(intptr_t);
void *__wrap_malloc(size_t n) { HIT("malloc"); return __real_malloc(n); }
void *__wrap_calloc(size_t a, size_t b) { HIT("calloc"); return __real_calloc(a, b); }
void *__wrap_realloc(void *p, size_t n) { HIT("realloc"); return __real_realloc(p, n); }
void __wrap_free(void *p) { HIT("free"); __real_free(p); }
void *__wrap_aligned_alloc(size_t a, size_t n) { HIT("aligned_alloc"); return __real_aligned_alloc(a, n); }
int __wrap_posix_memalign(void **p, size_t a, size_t n) { HIT("posix_memalign"); return __real_posix_memalign(p, a, n); }
char *__wrap_strdup(const char *s) { HIT("strdup"); return __real_strdup(s); }
char *__wrap_strndup(const char *s, size_t n) { HIT("strndup"); return __real_strndup(s, n); }
void *__wrap_mmap(void *a, size_t l, int p, int f, int fd, off_t o) { HIT("mmap"); return __real_mmap(a, l, p, f, fd, o); }
void *__wrap_sbrk(intptr_t i) { HIT("sbrk"); return __real_sbrk(i); }
#endif
#define LIB(stmt) do { in_lib = 1; stmt; in_lib = 0; } while (0)

/* ------------------------------------------------------------------ generic workload -- */
/* every library call goes through LIB(); harness allocations happen outside */
typedef struct { binson_parser p; binson_state st[255]; } pobj;

static uint64_t lib_calls;
static void drive_parser(vrng *r, pobj *o, const uint8_t *buf, size_t n, int root, int depth, char *text, size_t textcap, uint8_t *wbuf, size_t wcap)
{
    bool b; binson_parser *p = &o->p;
    if (vrn(r, 8) == 0) {
        /* a parser object that was only zeroed (no state array, depth 0): init is documented to refuse it */
        binson_parser zp; memset(&zp, 0, sizeof zp);
        LIB(b = binson_parser_init_object(&zp, buf, n)); LIB(b = binson_parser_init_array(&zp, buf, n));
        zp.max_depth = 3; LIB(b = binson_parser_init_object(&zp, buf, n));
        lib_calls += 3;
    }
    p->state = o->st; p->max_depth = (uint_fast8_t)depth;
    LIB(b = root == K_OBJ ? binson_parser_init_object(p, buf, n) : binson_parser_init_array(p, buf, n));
    LIB(b = binson_parser_verify(p));
    lib_calls += 2;
    int stack[64]; int sp = 0;
    LIB(b = root == K_OBJ ? binson_parser_go_into_object(p) : binson_parser_go_into_array(p));
    if (b) stack[sp++] = root;
    for (int i = 0; i < 60 && sp > 0; i++) {
        uint32_t k = vrn(r, 12);
        lib_calls++;
        if (k < 6) {
            LIB(b = binson_parser_next(p));
            if (b) {
                binson_type t; LIB(t = binson_parser_get_type(p));
                int64_t iv; double dv; bool bv; bbuf *bb;
                LIB(iv = binson_parser_get_integer(p)); LIB(dv = binson_parser_get_double(p)); LIB(bv = binson_parser_get_boolean(p));
                LIB(bb = binson_parser_get_string_bbuf(p)); LIB(bb = binson_parser_get_bytes_bbuf(p));
                if (stack[sp - 1] == K_OBJ) LIB(bb = binson_parser_get_name(p));
                LIB(bv = binson_parser_string_equals(p, "abc"));
                (void)iv; (void)dv; (void)bv; (void)bb;
                lib_calls += 7;
                if ((t == BINSON_TYPE_OBJECT || t == BINSON_TYPE_ARRAY) && sp < 63) {
                    uint32_t a = vrn(r, 4);
                    if (a < 2) { LIB(b = t == BINSON_TYPE_OBJECT ? binson_parser_go_into_object(p) : binson_parser_go_into_array(p)); if (b) stack[sp++] = t == BINSON_TYPE_OBJECT ? K_OBJ : K_ARR; }
                    else if (a == 2) { bbuf raw; LIB(b = binson_parser_get_raw(p, &raw)); }
                    else { binson_writer w; LIB(binson_writer_init(&w, wbuf, wcap)); LIB(b = binson_parser_to_writer(p, &w)); }
                }
            } else { LIB(b = stack[sp - 1] == K_OBJ ? binson_parser_leave_object(p) : binson_parser_leave_array(p)); sp--; }
        } else if (k < 9 && stack[sp - 1] == K_OBJ) {
            static const char *nm[] = { "a", "b", "aa", "m", "zz", "" };
            uint32_t which = vrn(r, 4); const char *name = nm[vrn(r, 6)];
            if (which == 0) LIB(b = binson_parser_field(p, name));
            else if (which == 1) LIB(b = binson_parser_field_with_length(p, name, strlen(name)));
            else if (which == 2) LIB(b = binson_parser_field_ensure(p, name, BINSON_TYPE_INTEGER));
            else LIB(b = binson_parser_field_ensure_with_length(p, name, strlen(name), BINSON_TYPE_STRING));
            if (p->error_flags != BINSON_ERROR_NONE) { LIB(b = binson_parser_reset(p)); sp = 0; LIB(b = root == K_OBJ ? binson_parser_go_into_object(p) : binson_parser_go_into_array(p)); if (b) stack[sp++] = root; }
        } else if (k == 9) { LIB(b = binson_parser_next_ensure(p, BINSON_TYPE_INTEGER)); if (p->error_flags != BINSON_ERROR_NONE) break; }
        else if (k == 10) { size_t d; LIB(d = binson_parser_get_depth(p)); (void)d; }
        else { LIB(b = stack[sp - 1] == K_OBJ ? binson_parser_leave_object(p) : binson_parser_leave_array(p)); if (b) sp--; else break; }
    }
#ifdef BINSON_PARSER_WITH_PRINT
    if (n < 4000) {
        size_t sz = 0;
        LIB(b = binson_parser_to_string(p, NULL, &sz, false));
        sz = vrn(r, 2) ? textcap : vrn(r, 40);
        LIB(b = binson_parser_to_string(p, text, &sz, true));
        LIB(b = binson_parser_print(p));
        lib_calls += 3;
    }
#else
    (void)text; (void)textcap;
#endif
}

static void drive_writer(vrng *r, uint8_t *wbuf, size_t wcap, const uint8_t *data)
{
    binson_writer w; bool b;
    size_t cap = vrn(r, 3) ? wcap : vrn(r, 40);
    LIB(b = binson_writer_init(&w, wbuf, cap));
    int n = 2 + (int)vrn(r, 14);
    for (int i = 0; i < n; i++) {
        uint32_t len = vrn(r, 6) ? vrn(r, 10) : 100 + vrn(r, 150);
        lib_calls++;
        switch (vrn(r, 13)) {
        case 0: LIB(b = binson_write_object_begin(&w)); break;
        case 1: LIB(b = binson_write_object_end(&w)); break;
        case 2: LIB(b = binson_write_array_begin(&w)); break;
        case 3: LIB(b = binson_write_array_end(&w)); break;
        case 4: LIB(b = binson_write_boolean(&w, i & 1)); break;
        case 5: case 6: { int64_t v = vt_rand_int(r); LIB(b = binson_write_integer(&w, v)); break; }
        case 7: LIB(b = binson_write_double(&w, 1.5 * i)); break;
        case 8: LIB(b = binson_write_string(&w, "name")); break;
        case 9: LIB(b = binson_write_string_with_len(&w, (const char *)data, len)); break;
        case 10: LIB(b = binson_write_name(&w, "k")); break;
        case 11: LIB(b = binson_write_bytes(&w, data, len)); break;
        default: LIB(b = binson_write_raw(&w, data, len)); break;
        }
    }
    /* sources inside the writer's own buffer (the writer copies with memmove, so in-place re-encoding is legitimate) */
    if (cap > 600) {
        uint32_t off = vrn(r, 200), len = 33 + vrn(r, 200);
        LIB(b = binson_write_bytes(&w, wbuf + off, len));
        LIB(b = binson_write_string_with_len(&w, (const char *)wbuf + vrn(r, 100), 40 + vrn(r, 100)));
        LIB(b = binson_write_raw(&w, wbuf + vrn(r, 50), 64));
        lib_calls += 3;
    }
    size_t c; LIB(c = binson_writer_get_counter(&w)); (void)c;
    if (w.error_flags == BINSON_ERROR_NONE) LIB(b = binson_writer_verify(&w));
    if (vrn(r, 4) == 0) {
        /* a well-formed document nested 1..40 objects deep, checked with binson_writer_verify (whose own parser has 10 levels) */
        int depth = 1 + (int)vrn(r, 40);
        LIB(b = binson_writer_init(&w, wbuf, wcap));
        for (int i = 0; i < depth; i++) { LIB(b = binson_write_object_begin(&w)); if (i + 1 < depth) LIB(b = binson_write_name(&w, "n")); }
        for (int i = 0; i < depth; i++) LIB(b = binson_write_object_end(&w));
        LIB(b = binson_writer_verify(&w));
        lib_calls += (uint64_t)(3 * depth + 2);
    }
    LIB(b = binson_writer_reset(&w));
    (void)b;
}

static void make_doc(vrng *r, vbuf *d, int *root, int *depth)
{
    *root = vrn(r, 3) ? K_OBJ : K_ARR;
    vgen g; vg_default(&g, *root);
    g.max_nodes = 3 + (int)vrn(r, vrn(r, 4) ? 25 : 150); g.container_permille = 450; g.hostile_names = 0;
    vnode *t;
    if (vrn(r, 25) == 0) { int a = 1 + (int)vrn(r, 255), b = 1 + (int)vrn(r, 255); t = vt_ladder(r, *root, a, b); }
    else t = vt_gen(r, &g);
    vt_encode(t, d);
    if (vrn(r, 4) == 0) { vm_mutate(r, d); }
    static const int DEPTHS[] = { 1, 2, 3, 10, 255 };
    *depth = DEPTHS[vrn(r, 5)];
}

static void generic_case(vrng *r)
{
    static pobj o; static char text[8192]; static uint8_t wbuf[8192]; static uint8_t data[300];
    vbuf d; memset(&d, 0, sizeof d);
    int root, depth;
    make_doc(r, &d, &root, &depth);
    for (size_t i = 0; i < sizeof data; i++) data[i] = (uint8_t)('a' + i % 26);
    memset(&o, (int)vrn(r, 256), sizeof o);
    drive_parser(r, &o, d.p, d.n, root, depth, text, sizeof text, wbuf, sizeof wbuf);
    drive_writer(r, wbuf, sizeof wbuf, data);
    vw_nontrivial(vh_hash(d.p, d.n, (uint64_t)depth));
    vb_free(&d);
}

/* directed scenarios that reach the guard branches (coverage evidence only) */
static void directed_guards(void)
{
    bbuf raw; size_t sz = 0; binson_writer w; uint8_t tmp[16]; bool b; binson_state st[2]; binson_parser p;
    b = binson_parser_init_object(NULL, tmp, 2); b = binson_parser_reset(NULL); b = binson_parser_verify(NULL); (void)binson_parser_get_depth(NULL);
    b = binson_parser_next(NULL); b = binson_parser_next_ensure(NULL, BINSON_TYPE_INTEGER); (void)binson_parser_get_type(NULL);
    b = binson_parser_field(NULL, "a"); b = binson_parser_field_with_length(NULL, "a", 1); b = binson_parser_field_ensure(NULL, "a", BINSON_TYPE_INTEGER);
    b = binson_parser_field_ensure_with_length(NULL, "a", 1, BINSON_TYPE_INTEGER);
    b = binson_parser_go_into_object(NULL); b = binson_parser_leave_object(NULL); b = binson_parser_go_into_array(NULL); b = binson_parser_leave_array(NULL);
    (void)binson_parser_get_name(NULL); (void)binson_parser_get_string_bbuf(NULL); b = binson_parser_get_raw(NULL, &raw); (void)binson_parser_get_integer(NULL);
    (void)binson_parser_get_boolean(NULL); (void)binson_parser_get_double(NULL); (void)binson_parser_get_bytes_bbuf(NULL); b = binson_parser_string_equals(NULL, "a");
#ifdef BINSON_PARSER_WITH_PRINT
    b = binson_parser_print(NULL); b = binson_parser_to_string(NULL, NULL, &sz, false);
#endif
    b = binson_writer_init(NULL, tmp, 2); b = binson_writer_init(&w, NULL, 2); b = binson_writer_reset(NULL); (void)binson_writer_get_counter(NULL);
    b = binson_write_name(NULL, "a"); b = binson_write_object_begin(NULL); b = binson_parser_to_writer(NULL, NULL); b = binson_write_raw(NULL, tmp, 1); b = binson_writer_verify(NULL);
    binson_writer_init(&w, tmp, sizeof tmp);
    b = binson_write_name(&w, NULL); b = binson_parser_to_writer(NULL, &w); b = binson_write_raw(&w, NULL, 1);
    { binson_writer w2; memset(&w2, 0, sizeof w2); b = binson_writer_reset(&w2); w2.buffer = tmp; w2.buffer_size = 1; b = binson_writer_reset(&w2); }
    memset(&p, 0, sizeof p); p.state = st; p.max_depth = 2;
    b = binson_parser_field(&p, NULL); b = binson_parser_field_ensure(&p, NULL, BINSON_TYPE_INTEGER);
    { static const uint8_t doc[] = { 0x42, 0x10, 0x01, 0x43 }; binson_parser_init_array(&p, doc, sizeof doc); binson_parser_go_into_array(&p); binson_parser_next(&p); (void)binson_parser_get_name(&p); }
    { static const uint8_t doc[] = { 0x40, 0x41 }; binson_parser_init_object(&p, doc, sizeof doc); b = binson_parser_field_with_length(&p, NULL, 1); p.type = 9; b = binson_parser_reset(&p); }
    (void)b; (void)sz;
}

/* ----------------------------------------------------------------- painted alt stack -- */
#define ALT_SZ (512 * 1024)
static uint8_t *alt; static ucontext_t ctx_main, ctx_alt;
typedef struct { int od, ad; uint32_t slen; int what; vbuf *doc; int wide; } sarg;
static sarg *SA;
static void nest_doc(vbuf *d, int od, int ad, uint32_t slen, bool with_double)
{
    vb_reset(d);
    for (int i = 0; i < od; i++) { if (i) { vb_u8(d, 0x14); vb_u8(d, 1); vb_u8(d, 'a'); } vb_u8(d, 0x40); }
    vb_u8(d, 0x14); vb_u8(d, 1); vb_u8(d, 'a');
    for (int i = 0; i < ad; i++) vb_u8(d, 0x42);
    { uint8_t *s = (uint8_t *)malloc(slen + 1); for (uint32_t i = 0; i < slen; i++) s[i] = (uint8_t)"x\"y\\%s\n\t\x80{"[i % 10]; ve_strlike(d, 0x14, s, slen); free(s); }   /* characters a renderer might treat specially */
    { uint32_t bl = slen > 20000 ? 20000 : slen; uint8_t *s = (uint8_t *)malloc(bl + 1); memset(s, 0xB7, bl); ve_strlike(d, 0x18, s, bl); free(s); }   /* a bytes value of the same order */
    ve_int(d, 0x10, 1234567);
    if (with_double) ve_double(d, 0x7FE1CCF385EBC8A0ULL);
    for (int i = 0; i < ad; i++) vb_u8(d, 0x43);
    vb_u8(d, 0x14); vb_u8(d, 1); vb_u8(d, 'b'); vb_u8(d, 0x44);
    for (int i = 0; i < od; i++) vb_u8(d, 0x41);
}
/* {"f000":1,...,"f<N-1>":N,"zz":[1,2,...,N],"zzz":{}} : work in front of a lookup / inside a skipped array grows with N */
static void wide_doc(vbuf *d, int n)
{
    vb_reset(d);
    vb_u8(d, 0x40);
    for (int i = 0; i < n; i++) { uint8_t nm[5] = { 'f', (uint8_t)('0' + i / 1000 % 10), (uint8_t)('0' + i / 100 % 10), (uint8_t)('0' + i / 10 % 10), (uint8_t)('0' + i % 10) }; ve_strlike(d, 0x14, nm, 5); ve_int(d, 0x10, i); }
    ve_strlike(d, 0x14, (const uint8_t *)"zz", 2);
    vb_u8(d, 0x42); for (int i = 0; i < n; i++) { if (i % 3 == 2) { vb_u8(d, 0x40); vb_u8(d, 0x41); } else ve_int(d, 0x10, i * 7); } vb_u8(d, 0x43);
    ve_strlike(d, 0x14, (const uint8_t *)"zzz", 3); vb_u8(d, 0x40); vb_u8(d, 0x41);
    vb_u8(d, 0x41);
}
/* {"a": bytes(E_n)} where E_0 = {} and E_k = {"a": bytes(E_k-1)}: serialized documents embedded in bytes values, n levels */
static void embed_doc(vbuf *d, int n)
{
    vbuf cur, nxt; memset(&cur, 0, sizeof cur); memset(&nxt, 0, sizeof nxt);
    vb_u8(&cur, 0x40); vb_u8(&cur, 0x41);
    for (int k = 0; k <= n; k++) {
        vb_reset(&nxt);
        vb_u8(&nxt, 0x40); vb_u8(&nxt, 0x14); vb_u8(&nxt, 1); vb_u8(&nxt, 'a');
        ve_strlike(&nxt, 0x18, cur.p, (uint32_t)cur.n);
        vb_u8(&nxt, 0x41);
        vbuf t = cur; cur = nxt; nxt = t;
    }
    vb_reset(d); vb_put(d, cur.p, cur.n);
    vb_free(&cur); vb_free(&nxt);
}
static pobj SO; static char stext[300000]; static uint8_t swb[200000];
static void on_alt(void)
{
    sarg *a = SA; binson_parser *p = &SO.p; bbuf raw; binson_writer w;
    p->state = SO.st; p->max_depth = 255;
    binson_parser_init_object(p, a->doc->p, a->doc->n);
    if (a->what == 0 && a->wide == 2) {
        /* the parser has exactly one level: everything below the root field is deeper than it may go */
        p->max_depth = 1;
        binson_parser_init_object(p, a->doc->p, a->doc->n);
        binson_parser_verify(p);
        binson_parser_reset(p); binson_parser_go_into_object(p); binson_parser_next(p); binson_parser_get_raw(p, &raw);
        binson_parser_reset(p); binson_parser_go_into_object(p); binson_parser_field(p, "a"); binson_writer_init(&w, swb, sizeof swb); binson_parser_to_writer(p, &w);
        binson_parser_reset(p); binson_parser_go_into_object(p); binson_parser_next(p); binson_parser_go_into_object(p); binson_parser_leave_object(p);
        binson_parser_reset(p); binson_parser_go_into_object(p); binson_parser_next(p); binson_parser_next(p); binson_parser_leave_object(p);
    } else if (a->what == 0 && a->wide) {
        binson_parser_verify(p);
        binson_parser_go_into_object(p);
        binson_parser_field(p, "f0000"); binson_parser_field(p, "absent"); binson_parser_field_ensure(p, "zz", BINSON_TYPE_ARRAY);
        binson_parser_go_into_array(p); binson_parser_next(p); binson_parser_next(p); binson_parser_leave_array(p);
        binson_parser_field_with_length(p, "zzz", 3); binson_parser_get_raw(p, &raw);
        binson_parser_leave_object(p);
        binson_parser_reset(p); binson_parser_go_into_object(p); binson_parser_field(p, "zzz"); binson_parser_leave_object(p);
        binson_parser_reset(p); binson_parser_go_into_object(p); binson_parser_field(p, "zz"); binson_writer_init(&w, swb, sizeof swb); binson_parser_to_writer(p, &w);
    } else if (a->what == 0) {
        binson_parser_verify(p);
        binson_parser_go_into_object(p);
        for (int i = 1; i < a->od; i++) { binson_parser_field(p, "a"); binson_parser_go_into_object(p); }
        binson_parser_field_ensure(p, "a", BINSON_TYPE_ARRAY);
        for (int i = 0; i < a->ad; i++) { binson_parser_go_into_array(p); binson_parser_next(p); }
        (void)binson_parser_get_string_bbuf(p); binson_parser_next(p); (void)binson_parser_get_bytes_bbuf(p); binson_parser_next(p); (void)binson_parser_get_integer(p);
        if (a->slen <= 1) {
            /* verify (and the text functions) called mid-parse at the deepest point, then the descent is repeated */
            binson_parser_verify(p);
            binson_parser_go_into_object(p);
            for (int i = 1; i < a->od; i++) { binson_parser_next(p); binson_parser_go_into_object(p); }
            binson_parser_next(p);
            for (int i = 0; i < a->ad; i++) { binson_parser_go_into_array(p); binson_parser_next(p); }
            binson_parser_verify(p);
            binson_parser_go_into_object(p);
            for (int i = 1; i < a->od; i++) { binson_parser_next(p); binson_parser_go_into_object(p); }
            binson_parser_next(p);
            for (int i = 0; i < a->ad; i++) { binson_parser_go_into_array(p); binson_parser_next(p); }
            binson_parser_next(p); binson_parser_next(p);
        }
        for (int i = 0; i < a->ad; i++) binson_parser_leave_array(p);
        binson_parser_next(p);
        for (int i = 0; i < a->od; i++) binson_parser_leave_object(p);
        /* calls that do not match the innermost open container, issued at the deepest point: leave_object inside the arrays,
         * leave_array inside the objects, enters on a scalar (whatever they answer, they must answer iteratively) */
        binson_parser_reset(p); binson_parser_go_into_object(p);
        for (int i = 1; i < a->od; i++) { binson_parser_next(p); binson_parser_go_into_object(p); }
        binson_parser_leave_array(p);
        binson_parser_next(p);
        for (int i = 0; i < a->ad; i++) { binson_parser_go_into_array(p); binson_parser_next(p); }
        binson_parser_go_into_object(p); binson_parser_go_into_array(p);
        for (int i = 0; i < a->od; i++) binson_parser_leave_object(p);
        binson_parser_reset(p); binson_parser_go_into_object(p); binson_parser_next(p); binson_parser_get_raw(p, &raw);
        binson_parser_reset(p); binson_parser_go_into_object(p); binson_parser_next(p);
        binson_writer_init(&w, swb, sizeof swb); binson_parser_to_writer(p, &w);
        binson_write_integer(&w, -5); binson_write_string_with_len(&w, (const char *)a->doc->p, a->doc->n > 1000 ? 1000 : a->doc->n); binson_write_double(&w, 2.5);
    }
#ifdef BINSON_PARSER_WITH_PRINT
    else {
        /* the text functions are called mid-parse too: first descend to the deepest point */
        binson_parser_go_into_object(p);
        for (int i = 1; i < a->od && !a->wide; i++) { binson_parser_next(p); binson_parser_go_into_object(p); }
        size_t sz = sizeof stext; binson_parser_to_string(p, stext, &sz, false); binson_parser_print(p);
        sz = sizeof stext; binson_parser_to_string(p, stext, &sz, true);      /* the `nice` argument (what the C++ toStr passes) */
        sz = 0; binson_parser_to_string(p, NULL, &sz, true);
    }
#endif
    swapcontext(&ctx_alt, &ctx_main);
}
static size_t measure(sarg *a)
{
    memset(alt, 0xCD, ALT_SZ);
    getcontext(&ctx_alt);
    ctx_alt.uc_stack.ss_sp = alt; ctx_alt.uc_stack.ss_size = ALT_SZ; ctx_alt.uc_link = &ctx_main;
    SA = a;
    makecontext(&ctx_alt, on_alt, 0);
    swapcontext(&ctx_main, &ctx_alt);
    size_t i = 0; while (i < ALT_SZ && alt[i] == 0xCD) i++;
    return ALT_SZ - i;
}

static void stack_mode(void)
{
    alt = (uint8_t *)malloc(ALT_SZ);
    vbuf d; memset(&d, 0, sizeof d);
    static const int ODS[] = { 1, 8, 64, 255 }, ADS[] = { 1, 255 }; static const uint32_t SLS[] = { 1, 70000 };
    for (int what = 0; what < 2; what++) {
#ifndef BINSON_PARSER_WITH_PRINT
        if (what == 1) break;
#endif
        size_t lo = (size_t)-1, hi = 0; char lo_at[64] = "", hi_at[64] = "";
        size_t flo[4] = { (size_t)-1, (size_t)-1, (size_t)-1, (size_t)-1 }, fhi[4] = { 0, 0, 0, 0 };      /* per family: nesting, width, embedded, tight depth */
#define FAM(f, u) do { if ((u) < flo[f]) flo[f] = (u); if ((u) > fhi[f]) fhi[f] = (u); } while (0)
        for (int warm = 0; warm < 2; warm++)          /* first pass warms up (lazy binding, stdio buffers) and is not counted */
            for (int i = 0; i < 4; i++) for (int j = 0; j < 2; j++) for (int k = 0; k < 2; k++) {
                /* text functions too: a 70000-byte string and a 20000-byte bytes value (40 KB of hex) */
                nest_doc(&d, ODS[i], ADS[j], SLS[k], false);
                sarg a = { ODS[i], ADS[j], SLS[k], what, &d, 0 };
                size_t u = measure(&a);
                if (!warm) continue;
                if (u < lo) { lo = u; snprintf(lo_at, sizeof lo_at, "objects=%d arrays=%d string=%u", ODS[i], ADS[j], SLS[k]); }
                if (u > hi) { hi = u; snprintf(hi_at, sizeof hi_at, "objects=%d arrays=%d string=%u", ODS[i], ADS[j], SLS[k]); }
                FAM(0, u);
                vw_count("stack_measurements", 1);
                vw_nontrivial(vh_hash(&a, sizeof(int) * 4, (uint64_t)what));
            }
        /* the same for width: number of fields in front of a lookup / elements of a skipped array */
        static const int WIDE[] = { 1, 60, 1000 };
        for (int warm = 0; warm < 2; warm++)
            for (int i = 0; i < 3; i++) {
                wide_doc(&d, WIDE[i]);
                sarg a = { 1, 1, 0, what, &d, 1 };
                size_t u = measure(&a);
                if (!warm) continue;
                if (u < lo) { lo = u; snprintf(lo_at, sizeof lo_at, "fields/elements=%d", WIDE[i]); }
                if (u > hi) { hi = u; snprintf(hi_at, sizeof hi_at, "fields/elements=%d", WIDE[i]); }
                FAM(1, u);
                vw_count("stack_measurements", 1);
                vw_nontrivial(vh_hash(&WIDE[i], sizeof(int), 40 + (uint64_t)what));
            }
        /* serialized documents embedded in bytes values, 1..150 levels: to the library they are bytes */
        static const int EMB[] = { 1, 20, 150 };
        for (int warm = 0; warm < 2; warm++)
            for (int i = 0; i < 3; i++) {
                embed_doc(&d, EMB[i]);
                sarg a = { 1, 1, 0, what, &d, 1 };
                size_t u = measure(&a);
                if (!warm) continue;
                if (u < lo) { lo = u; snprintf(lo_at, sizeof lo_at, "embedded documents=%d", EMB[i]); }
                if (u > hi) { hi = u; snprintf(hi_at, sizeof hi_at, "embedded documents=%d", EMB[i]); }
                FAM(2, u);
                vw_count("stack_measurements", 1);
                vw_nontrivial(vh_hash(&EMB[i], sizeof(int), 120 + (uint64_t)what));
            }
        /* and for input nested far deeper than the parser's own limit (max_depth 1): get_raw / to_writer / skip must refuse iteratively */
        static const int DEEP[] = { 2, 60, 1000 };
        for (int warm = 0; warm < 2 && what == 0; warm++)
            for (int i = 0; i < 3; i++) {
                nest_doc(&d, DEEP[i], 3, 4, false);
                sarg a = { DEEP[i], 3, 4, what, &d, 2 };
                size_t u = measure(&a);
                if (!warm) continue;
                if (u < lo) { lo = u; snprintf(lo_at, sizeof lo_at, "max_depth=1, input nesting=%d", DEEP[i]); }
                if (u > hi) { hi = u; snprintf(hi_at, sizeof hi_at, "max_depth=1, input nesting=%d", DEEP[i]); }
                FAM(3, u);
                vw_count("stack_measurements", 1);
                vw_nontrivial(vh_hash(&DEEP[i], sizeof(int), 80 + (uint64_t)what));
            }
        /* two bounds: inside a family the call sequence is identical and only the input grows, so the high-water marks must agree
         * (measured on the unchanged tree: 0 B parse/write, <= 24 B text, where libc's printf takes different paths); across families
         * the call chains differ legitimately (64 B / 112 B on the unchanged tree) */
        size_t fam_max = what == 0 ? 48 : 512;
        size_t spread_max = what == 0 ? 256 : 1024, budget = what == 0 ? 2048 + 1024 : 48 * 1024;
        vw_max(what == 0 ? "max_stack_bytes_parse_write" : "max_stack_bytes_text", hi);
        vw_max(what == 0 ? "max_stack_spread_parse_write" : "max_stack_spread_text", hi - lo);
        for (int f = 0; f < 4; f++) if (fhi[f]) { char nm[64]; snprintf(nm, sizeof nm, "max_stack_spread_%s_family%d", what == 0 ? "parse_write" : "text", f); vw_max(nm, fhi[f] - flo[f]); }
        char s[300];
        snprintf(s, sizeof s, "%s: stack high-water %zu B (%s) .. %zu B (%s) over object nesting {1,8,64,255} x array nesting {1,255} x string {1,70000} and widths {1,60,1000}", what == 0 ? "verify/navigate/lookup/get_raw/to_writer/write" : "to_string/print", lo, lo_at, hi, hi_at);
        vw_sample(s);
        static const char *FAMN[] = { "nesting/payload", "width", "embedded documents", "input deeper than max_depth" };
        bool famv = false;
        for (int f = 0; f < 4; f++) if (fhi[f] && fhi[f] - flo[f] > fam_max) {
            famv = true;
            vw_violation(what == 0 ? "c17:stack-depends-on-input" : "c17:stack-depends-on-input:text", "%s — in the %s family (same calls, only the input grows) the high-water mark ranges over %zu..%zu B, spread %zu B exceeds %zu B: stack use depends on the input", s, FAMN[f], flo[f], fhi[f], fhi[f] - flo[f], fam_max);
        }
        if (famv) { }
        else if (hi - lo > spread_max) vw_violation(what == 0 ? "c17:stack-depends-on-input" : "c17:stack-depends-on-input:text", "%s — spread %zu B exceeds %zu B: stack use depends on the input", s, hi - lo, spread_max);
        else if (hi > budget) vw_violation("c17:stack-budget", "%s — above the budget of %zu B", s, budget);
    }
#ifdef BINSON_PARSER_WITH_PRINT
    { /* documents with a huge double: libc's printf_fp needs more, only the budget applies */
        nest_doc(&d, 8, 3, 5, true); sarg a = { 8, 3, 5, 1, &d, 0 };
        measure(&a); size_t u = measure(&a);
        vw_max("max_stack_bytes_text_1e308", u);
        if (u > 48 * 1024) vw_violation("c17:stack-budget:double", "to_string/print of a document with 1e308 used %zu B of stack", u);
    }
#endif
    vb_free(&d);
}

/* ------------------------------------------------------------- writable segments -- */
static uint64_t seg_hash; static size_t seg_bytes; static int seg_found;
static int seg_cb(struct dl_phdr_info *info, size_t size, void *data)
{
    (void)size; (void)data;
    if (!info->dlpi_name || !strstr(info->dlpi_name, "libbinson_verif")) return 0;
    seg_found++;
    for (int i = 0; i < info->dlpi_phnum; i++) {
        const ElfW(Phdr) *ph = &info->dlpi_phdr[i];
        if (ph->p_type != PT_LOAD || !(ph->p_flags & PF_W)) continue;
        seg_hash = vh_hash((const void *)(info->dlpi_addr + ph->p_vaddr), ph->p_memsz, seg_hash);
        seg_bytes += ph->p_memsz;
    }
    return 0;
}

/* ------------------------------------------------------------------- interference -- */
typedef struct { vbuf doc; int root, depth; vsop ops[40]; int n; binson_parser *p; binson_state *st; vsctx cx; vbuf t; } session;
static void sess_make(session *s, vrng *r)
{
    memset(s, 0, sizeof *s);
    make_doc(r, &s->doc, &s->root, &s->depth);
    s->n = 10 + (int)vrn(r, 30);
    vs_random(r, s->ops, s->n, s->doc.p, s->doc.n, true);
    for (int i = 0; i < s->n; i++) if (s->ops[i].op == S_TO_STRING) s->ops[i].op = S_NEXT;      /* print/stdio excluded from the threaded part */
    s->p = (binson_parser *)calloc(1, sizeof(binson_parser)); s->st = (binson_state *)calloc((size_t)s->depth, sizeof(binson_state));
}
static void sess_start(session *s)
{
    memset(s->p, 0, sizeof(binson_parser)); memset(s->st, 0, sizeof(binson_state) * (size_t)s->depth); memset(&s->cx, 0, sizeof s->cx);
    vb_reset(&s->t);
    s->p->state = s->st; s->p->max_depth = (uint_fast8_t)s->depth;
    bool b = s->root == K_OBJ ? binson_parser_init_object(s->p, s->doc.p, s->doc.n) : binson_parser_init_array(s->p, s->doc.p, s->doc.n);
    vb_u8(&s->t, b);
}
static void sess_free(session *s) { vb_free(&s->doc); vb_free(&s->t); free(s->p); free(s->st); }

static void inter_case(vrng *r)
{
    session a, b; sess_make(&a, r); sess_make(&b, r);
    sess_start(&a); for (int i = 0; i < a.n; i++) vs_exec(a.p, a.doc.p, a.doc.n, &a.cx, &a.ops[i], &a.t);
    sess_start(&b); for (int i = 0; i < b.n; i++) vs_exec(b.p, b.doc.p, b.doc.n, &b.cx, &b.ops[i], &b.t);
    vbuf sa, sb; memset(&sa, 0, sizeof sa); memset(&sb, 0, sizeof sb);
    vb_put(&sa, a.t.p, a.t.n); vb_put(&sb, b.t.p, b.t.n);
    sess_start(&a); sess_start(&b);
    for (int i = 0; i < a.n || i < b.n; i++) {
        if (i < a.n) vs_exec(a.p, a.doc.p, a.doc.n, &a.cx, &a.ops[i], &a.t);
        if (i < b.n) vs_exec(b.p, b.doc.p, b.doc.n, &b.cx, &b.ops[i], &b.t);
    }
    if (sa.n != a.t.n || memcmp(sa.p, a.t.p, sa.n) != 0 || sb.n != b.t.n || memcmp(sb.p, b.t.p, sb.n) != 0)
        vw_violation("c17:sessions-interfere", "two independent parser objects interleaved call by call do not reproduce the transcripts of their solo runs (documents of %zu and %zu bytes)", a.doc.n, b.doc.n);
    vw_count("interleaved_calls", (uint64_t)(a.n + b.n));
    vw_nontrivial(vh_hash(a.doc.p, a.doc.n, vh_hash(b.doc.p, b.doc.n, 17)));
    vb_free(&sa); vb_free(&sb); sess_free(&a); sess_free(&b);
}

/* threads: every thread replays the same read-only sessions with private objects */
#define NTH 8
#define NSESS 200
static session SESS[NSESS]; static vbuf SOLO[NSESS];
static uint64_t th_mismatch[NTH];
static void *thread_main(void *arg)
{
    int id = (int)(intptr_t)arg;
    for (int rep = 0; rep < 20; rep++)
        for (int k = 0; k < NSESS; k++) {
            session *s = &SESS[(k + id * 7) % NSESS];
            binson_parser p; binson_state st[255]; vsctx cx; vbuf t; memset(&t, 0, sizeof t);
            memset(&p, 0, sizeof p); memset(st, 0, sizeof(binson_state) * (size_t)s->depth); memset(&cx, 0, sizeof cx);
            p.state = st; p.max_depth = (uint_fast8_t)s->depth;
            bool b = s->root == K_OBJ ? binson_parser_init_object(&p, s->doc.p, s->doc.n) : binson_parser_init_array(&p, s->doc.p, s->doc.n);
            vb_u8(&t, b);
            for (int i = 0; i < s->n; i++) vs_exec(&p, s->doc.p, s->doc.n, &cx, &s->ops[i], &t);
            vbuf *solo = &SOLO[(k + id * 7) % NSESS];
            if (t.n != solo->n || memcmp(t.p, solo->p, t.n) != 0) th_mismatch[id]++;
            /* a private writer too */
            uint8_t wb[256]; binson_writer w; binson_writer_init(&w, wb, sizeof wb);
            binson_write_object_begin(&w); binson_write_name(&w, "t"); binson_write_integer(&w, id * 1000 + k); binson_write_object_end(&w);
            vb_free(&t);
        }
    return NULL;
}
static void tsan_mode(vrng *r)
{
    for (int k = 0; k < NSESS; k++) {
        sess_make(&SESS[k], r);
        sess_start(&SESS[k]);
        for (int i = 0; i < SESS[k].n; i++) vs_exec(SESS[k].p, SESS[k].doc.p, SESS[k].doc.n, &SESS[k].cx, &SESS[k].ops[i], &SESS[k].t);
        vb_put(&SOLO[k], SESS[k].t.p, SESS[k].t.n);
        vw_nontrivial(vh_hash(SESS[k].doc.p, SESS[k].doc.n, 1700 + (uint64_t)k));
    }
    pthread_t th[NTH];
    for (int i = 0; i < NTH; i++) pthread_create(&th[i], NULL, thread_main, (void *)(intptr_t)i);
    uint64_t bad = 0;
    for (int i = 0; i < NTH; i++) { pthread_join(th[i], NULL); bad += th_mismatch[i]; }
    vw_count("threaded_sessions", (uint64_t)NTH * NSESS * 20);
    vw_add_evals((uint64_t)NTH * NSESS * 20);
    if (bad) vw_violation("c17:threads-interfere", "%llu sessions run concurrently on private objects gave a transcript different from the solo run", (unsigned long long)bad);
    vw_sample("8 threads x 200 sessions x 20 repetitions, private parser/state/writer per session, shared read-only input: transcripts equal the solo runs, ThreadSanitizer silent");
}

int main(int argc, char **argv)
{
    vw_init(argc, argv);
    const char *m = VA.mode;
    vrng r;
    vr_seed(&r, VA.seed, VA.wid, 0);
    vw_mute_stdout();
    if (!strcmp(m, "stack")) { if (VA.wid == 0) { vw_case(0); stack_mode(); } return vw_finish(); }
    if (!strcmp(m, "tsan")) { vw_case(0); tsan_mode(&r); return vw_finish(); }
    bool seg = !strcmp(m, "seg");
    uint64_t h0 = 0; size_t b0 = 0;
    if (seg) { seg_hash = 0; seg_bytes = 0; dl_iterate_phdr(seg_cb, NULL); h0 = seg_hash; b0 = seg_bytes; if (!seg_found || !b0) { fprintf(stderr, "HARNESS: libbinson_verif.so writable segment not found\n"); return 2; } }
    if (!strcmp(m, "cov")) directed_guards();
    for (uint64_t k = VA.start; k < VA.start + VA.cases && !vw_stop(); k++) {
        vw_case(k);
        vr_seed(&r, VA.seed, VA.wid, k);
        va_reset();
        if (!strcmp(m, "inter")) inter_case(&r); else generic_case(&r);
    }
    vw_count("library_calls", lib_calls);
    if (!strcmp(m, "alloc")) {
        vw_count("allocator_calls_inside_library", alloc_hits);
        if (alloc_hits) vw_violation("c17:allocator-call", "%llu allocator calls (first: %s) were made while a library call was in progress", (unsigned long long)alloc_hits, alloc_first);
        if (VA.wid == 0) vw_sample("generic workload (init/verify/navigation/lookups/get_raw/to_writer/to_string/print/all writer calls) with malloc, calloc, realloc, free, aligned_alloc, posix_memalign, strdup, strndup, mmap, sbrk wrapped at link time: 0 calls while inside the library");
    }
    if (seg) {
        seg_hash = 0; seg_bytes = 0; dl_iterate_phdr(seg_cb, NULL);
        vw_max("max_writable_segment_bytes", b0);
        if (seg_hash != h0 || seg_bytes != b0) vw_violation("c17:writable-static-changed", "the writable PT_LOAD segments of the library (%zu bytes) changed during the workload: the library owns writable static data", b0);
        if (VA.wid == 0) { char s[200]; snprintf(s, sizeof s, "libbinson_verif.so: %zu bytes of writable PT_LOAD (GOT/dynamic/crt only) hashed before and after the workload: unchanged", b0); vw_sample(s); }
    }
    return vw_finish();
}
