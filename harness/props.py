"""props.py — per-property check definitions for ./check (see DESIGN.md section 3)."""

GASAN = "-O1 -g -fno-omit-frame-pointer -fsanitize=address,undefined -fno-sanitize-recover=all"
BUILDS = {
    "gasan": dict(cc="gcc", cxx="g++", flags=GASAN),
    "casan": dict(cc="clang", cxx="clang++", flags="-O1 -g -fno-omit-frame-pointer -fsanitize=address,undefined -fno-sanitize=pointer-overflow -fno-sanitize-recover=all"),
    "msan": dict(cc="clang", cxx="clang++", flags="-O1 -g -fno-omit-frame-pointer -fsanitize=memory -fsanitize-memory-track-origins"),
    "plainO2": dict(cc="gcc", cxx="g++", flags="-O2 -g"),
    "plainO0": dict(cc="gcc", cxx="g++", flags="-O0 -g"),
    "tsan": dict(cc="gcc", cxx="g++", flags="-O1 -g -fsanitize=thread"),
}

WALK = ["w_walk.c", "vh.c"]

HOOKS = dict(
    guard="BINSON_VERIF",
    enable="none needed: every observation point is public API (return values, error_flags, buffer_used, depth, the cb/cb_context token callback, returned bbufs, destination buffers); "
           "the guard name is reserved and no source in /repo tests it",
    baseline_off_cmd="./run_repo_tests.sh",
    source_commits=[],
    add_only=True,
)
NOTES = ("Runtime monitoring only. ./check <ID> compiles /repo/src/*.c(pp) from the working tree with its own sanitizer flags, drives 16 worker processes, "
         "and decides by oracles written independently of the library (harness/vh.c: tree model, encoder, recogniser, reference cursor, renderer). "
         "Exit 0 held / 1 VIOLATION / 2 inconclusive (harness failure). known_findings.txt lists repaired defects (fixed:) and would list unrepaired ones (known:).")
ENGINE_NOTES = {
    "w_walk.c": "valid documents: full traversal, random and explicit-state protocol-following walks against a reference cursor, decode->encode transcription (gcc ASan+UBSan)",
}
LVL_NOTE = ("Trusted base: the harness oracles (harness/vh.c), gcc/clang sanitizer runtimes, x86-64 Linux. Holds only for the executions driven; "
            "counts of what was executed and observed are in the evidence file.")

CHECKS = {}

CHECKS["C03"] = dict(
    level_text='Every generated valid document is traversed completely by the real parser under ASan+UBSan and every getter result, span pointer and neutral result is compared with an independent tree model; hundreds of thousands (quick) to millions (thorough) of documents incl. nesting ladders to 255 levels and all width/length boundaries. Exploration: held on the documents executed.',
    technique='differential runtime monitor: real parser vs independent encoder/tree model over generated valid documents, ASan+UBSan',
    level_note=LVL_NOTE,
    title="A full traversal decodes exactly what the bytes encode, in place",
    rule="one case = one valid document (random tree from the shape generator, or one of the 220 valid corpus files) encoded by the independent encoder "
         "and visited completely with next/go_into/leave; after every successful next all getters, name/payload spans (pointer identity), neutral results of "
         "the other getters and string_equals probes are compared. non-trivial = at least 2 values visited; distinct = hash(document bytes, root kind)",
    assumptions=["the independent encoder/tree model in harness/vh.c is the specification of what bytes encode",
                 "x86-64 only; gcc ASan+UBSan build of the library compiled from the working tree"],
    jobs=[dict(name="c03", src=WALK, build="gasan", mode="c03", cases=(300000, 6000000), require=["values_compared", "corpus_documents"])],
)

CHECKS["C06"] = dict(
    level_text='Explicit-state execution of the real parser over all small trees (every reachable (reference cursor, parser memory) state x every protocol-following call, so sequences of any length) plus random long walks on large documents, each call compared with a reference cursor. Exhaustive within the stated tree bound, sampled beyond it.',
    technique='history + executable model: reference cursor vs real parser, exhaustive product-state execution on small trees and random walks, ASan+UBSan',
    level_note=LVL_NOTE,
    title="Cursor navigation (next/enter/skip/leave) matches the document structure",
    rule="explicit-state part: every container-rooted tree with <= N nodes over {int,string,object,array} (N=6 quick: 28 506 trees, N=8 thorough: 2 450 522 trees); from every reachable product state "
         "(reference cursor x bytes of the real parser struct and state array) every protocol-following call is executed on a restored copy and compared, successors "
         "deduplicated by hash, so call sequences of any length on those trees are covered. random part: one case = random valid document x random protocol-following walk "
         "(next, go_into, leave, get_raw, lookups of present names). non-trivial = walk of >= 3 calls on a document with >= 2 nodes; distinct = hash(document, call list) / tree code",
    exhaustive_note="all trees with <= N nodes x all reachable (cursor, parser memory) states x all protocol-following calls",
    assumptions=["the reference cursor in harness/vh.c (vc_*) is the sequential specification", "64-bit state hashes: a collision could hide a state (probability < 1e-9 per run)"],
    jobs=[dict(name="c06x", src=WALK, build="gasan", mode="c06x", cases=(28506, 2450522), opt=("6", "8"), require=["product_states", "transitions"]),
          dict(name="c06r", src=WALK, build="gasan", mode="c06r", cases=(600000, 6000000), require=["calls"])],
)

CHECKS["C07"] = dict(
    level_text='Same engine as C06 with the full lookup alphabet (present, prefix, extension, before, after, empty; all four lookup entry points; wrong-type ensure) on all small trees, plus random lookup series over hostile name families on large objects; each result, the getters after a hit, and all later calls are compared with the reference cursor.',
    technique='history + executable model: lookups vs reference cursor, exhaustive on small trees + random hostile name families, ASan+UBSan',
    level_note=LVL_NOTE,
    title="Field lookup finds exactly the present names and never loses later fields",
    rule="explicit-state part as C06 with the lookup alphabet = present names, a proper prefix and an extension of each, a name before/after everything, the empty name, "
         "through field/field_with_length/field_ensure/field_ensure_with_length incl. wrong-type ensure (terminal: must return false and set WRONG_TYPE); a second exhaustive pass (c07h) names the children by position from the bytewise ascending family '' < a < a\\0 < aa < b\\xff < \\x80 < \\xff and looks up every family member plus seven near misses (a\\0\\0, ab, b, \\x7f, \\x80\\0, \\0, aa\\0). random part: objects with "
         "names from prefix/extension/sign/NUL families and 127..300-byte names x random lookup series (ascending-only series in a third of the cases) interleaved with next/enter/leave. "
         "non-trivial = walk of >= 3 calls; distinct = hash(document, call list)",
    exhaustive_note="all trees with <= N nodes x all reachable product states x the full lookup alphabet",
    assumptions=["reference cursor vc_field is the specification of a lookup", "lookups are issued only inside objects"],
    jobs=[dict(name="c07x", src=WALK, build="gasan", mode="c07x", cases=(28506, 2450522), opt=("6", "8"), require=["product_states", "lookups_found", "lookups_absent", "wrong_type_raised"]),
          dict(name="c07h", src=WALK, build="gasan", mode="c07x", cases=(28506, 259674), opt=("6 hostile", "7 hostile"), require=["product_states", "lookups_found", "lookups_absent"]),
          dict(name="c07r", src=WALK, build="gasan", mode="c07r", cases=(600000, 6000000), require=["calls", "lookups_found", "lookups_absent", "lookups_name_inside_document"])],
)

CHECKS["C10"] = dict(
    level_text="Metamorphic monitor: the real parser's answers drive the real writer; the output must equal the input for every generated valid object-rooted document and every valid corpus file. No reference model is consulted, so an error shared by encoder and library cannot hide.",
    technique='metamorphic round trip decode->encode on generated valid documents and the shipped corpus, exact-size destination under ASan',
    level_note=LVL_NOTE,
    title="Decode then encode reproduces every valid document byte for byte",
    rule="one case = one valid object-rooted document (random tree or valid corpus file) walked with next/go_into/leave, every decoded name and value handed to the matching "
         "binson_write_* call into an exact-size destination; output must equal the input bytes. The transcriber is driven only by the parser's answers. "
         "non-trivial = document with >= 2 nodes; distinct = hash(document bytes)",
    assumptions=["documents come from the independent encoder or the shipped corpus"],
    jobs=[dict(name="c10", src=WALK, build="gasan", mode="c10", cases=(500000, 6000000), require=["bytes_transcribed", "corpus_documents"])],
)

CHECKS["C11"] = dict(
    level_text="Same engine as C06 with get_raw / parser_to_writer at every position where a value is current: span identity against the encoder's span, standalone verify of the span, bytes appended to exact-size and too-small writers, no effect on scalars, and the following element, exhaustively on small trees and randomly on large ones.",
    technique='history + executable model with span oracle: get_raw/to_writer vs encoder spans, exhaustive on small trees + random walks, ASan+UBSan',
    level_note=LVL_NOTE,
    title="get_raw / parser_to_writer return exactly the bytes of the current container",
    rule="as C06 with get_raw / to_writer (exact-size and too-small writers, with 0..2 bytes already written) in the alphabet at every position where a value is current: "
         "span start/size vs the encoder's span, verify of the extracted span as a standalone document, bytes appended to the writer, false + unchanged cursor/writer on scalars, "
         "and the element that follows. non-trivial = walk of >= 3 calls; distinct = hash(document, call list) / tree code",
    exhaustive_note="all trees with <= N nodes x all reachable product states with get_raw/to_writer in the alphabet",
    assumptions=["reference cursor + encoder spans are the specification"],
    jobs=[dict(name="c11x", src=WALK, build="gasan", mode="c11x", cases=(28506, 2450522), opt=("6", "8"), require=["product_states", "raw_spans_checked", "to_writer_checked", "raw_on_scalar"]),
          dict(name="c11r", src=WALK, build="gasan", mode="c11r", cases=(600000, 6000000), require=["calls", "raw_spans_checked", "to_writer_checked"])],
)

CHECKS["C02"] = dict(
    level_text="Differential monitor: the real init+verify is executed on every token sequence of <= L tokens over a 40-token alphabet holding every token kind, width boundary, "
               "non-minimal/negative/overlong length and illegal type byte (exhaustive; both root kinds, max_depth 1..3, plus wrapping variants), on nesting ladders around both limits, "
               "on the 1791 corpus files at five depths, and on random valid documents, mutants and token soup; verdict and depth error code are compared with an independent recogniser.",
    technique="differential runtime monitor: verify vs independent recogniser; exhaustive token-sequence enumeration + ladders + corpus + mutation, ASan+UBSan",
    level_note=LVL_NOTE,
    title="verify accepts exactly the well-formed Binson documents",
    rule="c02e: one case = one sequence of <= L alphabet tokens wrapped as object and as array, checked at max_depth 1,2,3 (+5 wrapping variants for L<=3); exhaustive over all sequences. "
         "c02r: one case = one document (ladder batch, corpus file x {1,2,3,10,255}, random valid tree at/below/above its needed depth, 1-3 mutations, token soup). "
         "non-trivial = document of >= 3 bytes; distinct = hash(bytes, root kind, max_depth)",
    exhaustive_note="all token sequences of <= L body tokens over the alphabet (L=4 quick, L=5 thorough) x {object,array} root x max_depth {1,2,3}",
    assumptions=["vrecognise (harness/vh.c) is the reading of the specification: root counts as level 1 for either root kind, array nesting counted per object level, <= 255",
                 "UTF-8 validity of strings is not part of the property"],
    jobs=[dict(name="c02e", src=["w_verify.c", "vh.c"], build="gasan", mode="c02e", cases=(2625641, 105025641), opt=("4", "5"), require=["verify_accepted", "verify_rejected", "depth_first_obstacle"]),
          dict(name="c02r", src=["w_verify.c", "vh.c"], build="gasan", mode="c02r", cases=(1000000, 8000000), require=["accepted", "rejected", "corpus_runs", "ladder_batches", "depth_first_obstacle"])],
)
ENGINE_NOTES["w_verify.c"] = "verify vs independent recogniser: exhaustive token enumeration, nesting ladders, corpus, mutants (gcc ASan+UBSan)"

API = ["w_api.c", "vh.c"]
CHECKS["C01"] = dict(
    level_text="Hostile workload under AddressSanitizer+UBSan (gcc; thorough also clang and valgrind memcheck): arbitrary bytes (valid, mutated, token soup, truncations, lengths 0..3 up to 64 KiB+) in an "
               "exact-size heap block, parser struct and a state array of exactly max_depth entries pre-filled with adversarial garbage, init called whatever it returns, then 10-60 calls drawn from the "
               "whole public parser API incl. re-init on other/truncated buffers, to_string into exact-size/NULL destinations, lookups with exact-size names. Monitors: sanitizer runtime, bounds of every "
               "returned span, byte-compare of the input. Exploration: held on the sequences executed; red-zone tools do not see non-adjacent overflows that land in other live heap blocks.",
    technique="sanitizer monitoring (ASan+UBSan, memcheck) of hostile random API sequences on exact-size heap blocks + returned-span range monitor + input immutability monitor",
    level_note=LVL_NOTE,
    title="Parser never touches memory outside the buffer and its own state",
    rule="one case = (bytes, root kind, max_depth 1..255, garbage fill of struct+state, 10-60 API calls); lookups only while the harness's own enter/leave record and the parser's public state both say 'inside an object'. "
         "non-trivial = input of >= 2 bytes; distinct = hash(bytes, call trace with results, max_depth)",
    assumptions=["valid pointers only: NULL is passed only where the header defines it (to_string text buffer)", "field lookups only while positioned inside an object, as documented"],
    jobs=[dict(name="c01", src=API, build="gasan", mode="c01", cases=(1500000, 20000000), require=["api_calls", "call_leave_object", "call_field_with_length", "call_to_string", "call_get_raw"]),
          dict(name="c01clang", src=API, build="casan", mode="c01", cases=(0, 5000000), thorough_only=True),
          dict(name="c01vg", src=API, build="plainO1g", mode="c01", cases=(0, 600000), thorough_only=True, wrap="valgrind -q --error-exitcode=99 --undef-value-errors=no", crash_is_violation=False, timeout=7200)],
)
ENGINE_NOTES["w_api.c"] = "hostile random API sequences over arbitrary bytes; memory monitors (C01) or token-callback work counter (C16)"
BUILDS["plainO1g"] = dict(cc="gcc", cxx="g++", flags="-O1 -g")

CHECKS["C16"] = dict(
    level_text="Bounded-work restatement of termination, monitored at run time: the public per-token callback counts tokens per API call; every call must satisfy tokens <= bytes advanced + 3, "
               "a tripwire inside the callback aborts any call exceeding 2*size+64 tokens (live-lock), the cursor never moves backwards, verify processes <= size+2 tokens; a wall-clock watchdog "
               "(re-run once alone before it counts) covers loops that never reach the callback. No finite run decides 'never loops forever'; this refutes, it does not prove.",
    technique="runtime work monitor on the public token callback (per-call token bound, live-lock tripwire, cursor monotonicity) + watchdog, over hostile API sequences and work-adversarial inputs",
    level_note=LVL_NOTE + " Termination itself is not decidable by monitoring; claimed as bounded work on the executions driven.",
    title="Every call terminates and work is linear in the bytes it moves over",
    rule="one case = hostile (bytes, configuration, 10-60 API calls) as C01, plus work-adversarial inputs (64 KiB of nested arrays / empty-named objects / 1-byte tokens / thousands of fields) with up to 220 calls; "
         "token callbacks counted per call. non-trivial = input of >= 2 bytes; distinct = hash(bytes, call trace, max_depth)",
    assumptions=["every continuing iteration of the parser's advance loop passes through the token callback (true of the current source; a loop that does not is left to the watchdog)",
                 "writer calls contain no input-dependent loop except the <= 8 byte integer packing and memmove"],
    jobs=[dict(name="c16", src=API, build="gasan", mode="c16", cases=(1500000, 20000000), require=["calls_measured", "callbacks", "verify_measured"]),
          dict(name="c16O2", src=API, build="plainO2", mode="c16", cases=(1500000, 20000000), require=["calls_measured"])],
)

WRITER = ["w_writer.c", "vh.c"]
ENGINE_NOTES["w_writer.c"] = "writer monitors: piece model at every capacity (C04/C09), clean restart (C12), canonical-encoding sweeps and round trips (C05)"
CHECKS["C04"] = dict(
    level_text="Every generated write-call list (well-formed or not, 1-14 calls over the whole writer API, sources in exact-size blocks) is executed at EVERY capacity 0..T+2 into a destination that really has "
               "that capacity (exact-size heap block under ASan, alternating with a canary-tailed block; canary form for capacity 0), and compared with an independent piece model: per-call return value, "
               "counter == exact size at every capacity, RANGE iff too small, stored prefix, untouched remainder. Exhaustive over capacities per list, sampled over lists.",
    technique="runtime monitor with independent piece model + exact-size destinations under ASan/UBSan, exhaustive capacity sweep per generated call list",
    level_note=LVL_NOTE,
    title="Writer never writes past its buffer and always reports the exact size",
    rule="one case = one write-call list, run once per capacity 0..T+2 (lists with T > 2500: every capacity within 300 of either end and within 2 of every piece boundary, plus a stride); "
         "non-trivial = encoded size >= 2; distinct = hash(call list with arguments)",
    exhaustive_note="per list: all capacities 0..T+2 (T <= 2500)",
    assumptions=["lengths > INT32_MAX (FORMAT, needs a > 2 GiB source) and NULL data pointers are outside the workload", "binson_writer_verify is never called on an overflowed writer (no property covers it)"],
    jobs=[dict(name="c04", src=WRITER, build="gasan", mode="c04", cases=(150000, 2500000), require=["capacity_runs", "write_calls"]),
          dict(name="c04clang", src=WRITER, build="casan", mode="c04", cases=(0, 400000), thorough_only=True),
          dict(name="c04vg", src=WRITER, build="plainO1g", mode="c04", cases=(0, 16000), thorough_only=True, wrap="valgrind -q --error-exitcode=99 --undef-value-errors=no", timeout=7200)],
)
CHECKS["C05"] = dict(
    level_text="The writer's bytes are compared with an independent encoder and decoded back with the real parser: every integer within 2^14 (quick) / 2^16 (thorough) of +-2^k for k=0..63, "
               "ALL 2^32 32-bit integers (thorough), random 64-bit integers and double bit patterns, every string/bytes/name length 0..70000 (thorough; boundary bands quick), and random well-formed "
               "write sequences derived from trees (verify, writer_verify, full decode-back). Exhaustive over the stated integer and length ranges, sampled elsewhere.",
    technique="differential runtime monitor: writer vs independent canonical encoder, exhaustive integer/length sweeps, round trip through the real parser, ASan+UBSan",
    level_note=LVL_NOTE,
    title="Writer output is the canonical encoding and round-trips through the parser",
    rule="c05i: one evaluation = one integer written into an exact-size [v] document; c05d: one double; c05s: one (length, kind) with random content; c05o: one value whose source overlaps its destination inside the writer's own buffer; c05t: one well-formed call sequence derived from a random tree. "
         "non-trivial = every c05t sequence with >= 3 calls, every length, every 256th swept integer/double (hash-sampled to bound memory); distinct = hash of the value / length+kind / encoding",
    exhaustive_note="integers +-(2^k+d), k=0..63, |d|<=2^14 (quick) / 2^16 (thorough); all 2^32 int32 values (thorough, gcc -O2 build); all lengths 0..70000 x {string,bytes,name} (thorough)",
    assumptions=["vt_encode / ve_int / ve_strlike in harness/vh.c are the canonical encoding"],
    jobs=[dict(name="c05i", src=WRITER, build="gasan", mode="c05i", cases=(4000000, 40000000), opt=("bits=14", "bits=16"), require=["integers_swept", "integers_random"]),
          dict(name="c05all32", src=WRITER, build="plainO2", mode="c05i", cases=(0, 4294967296), opt="all32", thorough_only=True, require=["integers_swept"]),
          dict(name="c05d", src=WRITER, build="gasan", mode="c05d", cases=(4000000, 40000000), require=["doubles"]),
          dict(name="c05s", src=WRITER, build="gasan", mode="c05s", cases=(4872, 210003), require=["lengths_checked"]),
          dict(name="c05o", src=WRITER, build="gasan", mode="c05o", cases=(300000, 4000000), require=["overlapping_source_writes"]),
          dict(name="c05t", src=WRITER, build="gasan", mode="c05t", cases=(600000, 8000000), require=["write_calls", "values_decoded_back", "writer_verify_checked"])],
)

STREAM = ["w_stream.c", "vh.c"]
ENGINE_NOTES["w_stream.c"] = "adaptive traversals over arbitrary bytes: verdict equality with verify (C08), error latching (C09 parser part)"
CHECKS["C08"] = dict(
    level_text="For every generated byte string (valid trees, corpus, 1-3 mutations, token soup, nesting around max_depth) the verdict of init+verify on a fresh parser is compared with the outcome of 8 (quick) / 16 "
               "(thorough) complete adaptive traversals on fresh parsers - enter-everything, skip-everything, lookups-only, get_raw-everything, to_writer-everything, leave-at-first-opportunity and random mixes - "
               "driven only by the parser's answers. Any disagreement in either direction is a violation. Exploration over inputs x strategies.",
    technique="differential runtime monitor: adaptive streaming traversal outcome vs verify on the same bytes, per strategy, ASan+UBSan",
    level_note=LVL_NOTE,
    title="Streaming traversal is exactly as strict as verify",
    rule="one case = one byte string x max_depth (also at/below/above the needed depth) x root kind, traversed by every strategy; success = init, every go_into/leave/get_raw/to_writer true and error NONE after the top-level leave "
         "(next/lookup answering false are answers). non-trivial = >= 3 bytes; distinct = hash(bytes, root kind, max_depth). Traversals ended by the step cap (4*size+64 calls) are counted as inconclusive, not judged",
    assumptions=["verify's own verdict is tied to the specification by C02"],
    jobs=[dict(name="c08", src=STREAM, build="gasan", mode="c08", cases=(1000000, 8000000), require=["documents_valid", "documents_invalid", "traversals"])],
)
CHECKS["C09"] = dict(
    level_text="Parser: every error class (RANGE by truncation, FORMAT by mutation, WRONG_TYPE by _ensure calls, STATE by get_name in a root array, MAX_DEPTH_OBJECT/ARRAY by ladders, NULL by field_with_length(NULL)) "
               "is provoked by a directed scenario at random positions of an adaptive walk; the public error field is watched after every call, and from the first call that sets it 20 further calls drawn from all "
               "advancing calls and getters must fail / be neutral with the indicator still set. Writer: the C04 piece model at every capacity, with NULL-data failures added, checks after every later call that it "
               "returns false, stores nothing, the counter keeps counting and the indicator stays set.",
    technique="runtime monitor watching the public error indicator after every call; directed fault scenarios per error class + piece model for the writer, ASan+UBSan",
    level_note=LVL_NOTE,
    title="Errors latch: one check at the end is enough",
    rule="c09p: one case = one scenario (9 directed classes round-robin) -> episode of 20 calls after the first error; evidence counters after_<CLASS>_<call> give the class x call matrix. "
         "c09w: one case = one write-call list (incl. write_raw(NULL)) run at every capacity. non-trivial = an episode was reached / encoded size >= 2; distinct = hash(bytes, class, depth) / hash(call list)",
    assumptions=["'stays set' = error_flags != NONE (the code may change, e.g. NULL over FORMAT)", "the episode ends at reset/init/verify (and print/to_string, which are verify-based); C12 covers what follows"],
    jobs=[dict(name="c09p", src=STREAM, build="gasan", mode="c09p", cases=(400000, 8000000),
               require=["episodes", "errors_RANGE", "errors_FORMAT", "errors_WRONG_TYPE", "errors_STATE", "errors_MAX_DEPTH_OBJECT", "errors_MAX_DEPTH_ARRAY", "errors_NULL"]),
          dict(name="c09w", src=WRITER, build="gasan", mode="c09w", cases=(60000, 1500000), require=["capacity_runs"])],
)

ENGINE_NOTES["w_reuse.c"] = "differential monitor: transcript of a scripted walk on a reused parser object vs a fresh one"
CHECKS["C12"] = dict(
    level_text="Differential monitor: a parser object is first abused (arbitrary document, abandoned random script possibly ending in any error, a rejected init, or random/0xFF/0x01 garbage over struct and state array) "
               "and then re-targeted by init_object/init_array on another document, reset, verify or verify twice; a fixed random script of 5-60 calls over the whole API then runs on it and on a fresh zero-filled "
               "parser, and the transcripts of every observable result (returns, error_flags, get_depth, getter values, spans as offsets, to_string/to_writer output) must be byte-identical. Writer: after arbitrary "
               "use/overflow/NULL failure, init and a successful reset must give counter 0, no error, and piece-model behaviour for a following list.",
    technique="differential runtime monitor: reused vs fresh object transcripts over random histories (parser) + piece model after init/reset (writer), ASan+UBSan",
    level_note=LVL_NOTE,
    title="A parser object carries nothing over: init/reset/verify give a clean start",
    rule="c12p: one case = (previous document, previous script, optional garbage) x (restart kind) x (next document, script of 5-60 calls), max_depth from {1,2,3,4,10,40,255} equal in both; "
         "c12w: one case = (list A at capacity a) x (init | init same buffer | reset) x (list B). non-trivial = a comparable pair was executed; distinct = hash(documents, restart kind, depth, script)",
    assumptions=["the caller restores state pointer and max_depth after overwriting the struct with garbage (they are caller-owned configuration)",
                 "spans are compared as offsets into the input buffer"],
    jobs=[dict(name="c12p", src=["w_reuse.c", "vh.c"], build="gasan", mode="c12p", cases=(1000000, 10000000), require=["script_calls", "restart_init", "restart_reset", "restart_verify", "restart_after_error", "restart_after_garbage", "verify_true_restarts"]),
          dict(name="c12w", src=WRITER, build="gasan", mode="c12w", cases=(300000, 5000000), require=["reuse_after_init", "reuse_after_reset", "reuse_after_error", "reset_refused_small"])],
)

TEXT = ["w_text.c", "vh.c"]
ENGINE_NOTES["w_text.c"] = "to_string size protocol at every capacity (C13); text vs reference renderer and captured stdout of print (C14)"
CHECKS["C13"] = dict(
    level_text="For every generated document (valid trees rich in long byte strings, huge/NaN/inf doubles, NUL-containing names, nesting; a fifth mutated) the NULL query is followed by a call at EVERY capacity "
               "0..need+3 into a destination of exactly that capacity (exact-size heap block under ASan, every fifth a canary-tailed block, canary form for capacity 0): false + *size==need below need, "
               "true + *size==need-1 + NUL + identical text at/above, nothing stored at or beyond the capacity or beyond text+NUL; invalid documents: false at every capacity. "
               "Exhaustive over capacities per document (stratified above 4 KiB of text), sampled over documents.",
    technique="runtime monitor: exhaustive capacity sweep per document into exact-size destinations under ASan/UBSan + canaries, self-consistency of the size protocol",
    level_note=LVL_NOTE,
    title="to_string obeys its size protocol and never overruns the text buffer",
    rule="one case = one document; to_string is called once with NULL and once per capacity 0..need+3. non-trivial = document >= 3 bytes; distinct = hash(bytes, max_depth)",
    exhaustive_note="per document: all capacities 0..need+3 (documents with <= 4 KiB of text)",
    assumptions=["the text content itself is judged by C14; here only the protocol (sizes, terminator, identical text at all sufficient capacities, no store beyond capacity)"],
    jobs=[dict(name="c13", src=TEXT, build="gasan", mode="c13", cases=(12000, 150000), require=["to_string_calls", "valid_documents", "invalid_documents"]),
          dict(name="c13clang", src=TEXT, build="casan", mode="c13", cases=(0, 60000), thorough_only=True),
          dict(name="c13vg", src=TEXT, build="plainO1g", mode="c13", cases=(0, 8000), thorough_only=True, wrap="valgrind -q --error-exitcode=99 --undef-value-errors=no", timeout=7200)],
)
CHECKS["C14"] = dict(
    level_text="The text produced by to_string (ample capacity) is compared byte for byte with an independent reference renderer, and the bytes binson_parser_print writes to stdout (captured through a memfd) "
               "with that text: for ALL trees with <= 6 (quick) / 7 (thorough) nodes over {int, bool, object, array} - every combination of empty/non-empty containers and scalars as first, middle, last sibling "
               "at nesting levels 1..N - and for random valid documents with every value type, NUL-containing names/strings, huge doubles, long byte strings, nesting ladders.",
    technique="differential runtime monitor: to_string text and captured print output vs independent reference renderer; exhaustive over small tree shapes + random documents, ASan+UBSan",
    level_note=LVL_NOTE + " Doubles are rendered by the same libc printf in library and reference (the property says 'as printf %f').",
    title="Printed text is the faithful rendering of the document",
    rule="c14x: one case = one tree shape (prefix code such as OiA))) ; c14r: one case = one random valid document. non-trivial = every case; distinct = hash(document bytes)",
    exhaustive_note="all container-rooted trees with <= N nodes over {int,bool,object,array} (N=6 quick: 28506 trees, N=7 thorough: 259674 trees)",
    assumptions=["vt_render in harness/vh.c is the reference rendering of the statement"],
    jobs=[dict(name="c14x", src=TEXT, build="gasan", mode="c14x", cases=(28506, 259674), opt=("6", "7"), require=["texts_compared", "print_outputs_compared"]),
          dict(name="c14r", src=TEXT, build="gasan", mode="c14r", cases=(500000, 4000000), require=["texts_compared", "print_outputs_compared"])],
)

CPPLIB = ["binson_parser.c", "binson_writer.c", "binson.cpp"]
ENGINE_NOTES["w_cpp.cpp"] = "C++ Binson class: value trees and arbitrary bytes through serialize / three deserialize overloads (g++/clang++ ASan+UBSan)"
CHECKS["C15"] = dict(
    level_text="C++ harness linked against src/binson.cpp under ASan+UBSan. Value trees of the seven types (object nesting <= 10, keys from NUL/>=0x80 families inserted in random order, sizes straddling the 1000-byte "
               "first-try buffer and up to tens of KB): serialize() vs the independent encoder with keys sorted bytewise, verify, deserialize(serialize(x)) structurally equal to x through all three overloads, "
               "serialize(writer) agreement. Byte strings (all 1791 corpus files, valid trees around the depth limit, mutants, token soup, lengths 0-2, empty vectors with and without capacity): each overload "
               "returns exactly when verify at depth 10 accepts, otherwise throws std::exception, and re-serializes to the same bytes; the stack under overload 1 is zero-painted so that use of an "
               "uninitialised parser crashes deterministically.",
    technique="differential runtime monitor in a C++ harness: Binson class vs independent encoder / verify, outcome classification (returned / threw / crashed) under ASan+UBSan",
    level_note=LVL_NOTE,
    title="C++ Binson class: lossless round trip, exceptions instead of crashes",
    rule="c15t: one case = one value tree; c15b: one case = one byte string through the three overloads. non-trivial = tree with >= 2 nodes / every byte string; distinct = hash(encoding) / hash(bytes)",
    assumptions=["BinsonValue of type noneType is not one of the seven value types and is not generated"],
    jobs=[dict(name="c15t", src=["w_cpp.cpp", "vh.c"], lib=CPPLIB, build="gasan", mode="c15t", cases=(60000, 1500000), require=["trees", "roundtrips", "above_first_try_buffer"]),
          dict(name="c15b", src=["w_cpp.cpp", "vh.c"], lib=CPPLIB, build="gasan", mode="c15b", cases=(120000, 3000000),
               require=["corpus_files", "accepted_by_verify", "rejected_by_verify", "overload1_returned", "overload1_threw", "overload2_threw", "overload3_threw"]),
          dict(name="c15bclang", src=["w_cpp.cpp", "vh.c"], lib=CPPLIB, build="casan", mode="c15b", cases=(0, 600000), thorough_only=True)],
)

BUILDS["gccO3s"] = dict(cc="gcc", cxx="g++", flags="-O3 -g -fsigned-char")
BUILDS["clangO3u"] = dict(cc="clang", cxx="clang++", flags="-O3 -g -funsigned-char")
for _cc in ("gcc", "clang"):
    for _o in ("O0", "O2", "Os"):
        for _ch, _fl in (("s", "-fsigned-char"), ("u", "-funsigned-char")):
            BUILDS["%s%s%s" % (_cc, _o, _ch)] = dict(cc=_cc, cxx="g++" if _cc == "gcc" else "clang++", flags="-%s -g %s" % (_o, _fl))
XS = ["w_xscript.c", "vh.c"]
ENGINE_NOTES["w_xscript.c"] = "transcript worker: one digest per seeded scenario, compared across build configurations"
_XSB = ["gccO2s", "gccO0s", "gccOss", "gccO0u", "gccO2u", "gccOsu", "clangO0s", "clangO2s", "clangOss", "clangO0u", "clangO2u", "clangOsu", "gccO3s", "clangO3u", "gasan", "casan"]
CHECKS["C18"] = dict(
    level_text="A transcript worker replays a seeded scenario corpus touching every public C function (init/verify verdicts and codes, scripted call lists with all getters and lookups, get_raw/to_writer, "
               "to_string at cut capacities, captured print output, writer call lists at cut capacities, writer_verify/reset) and emits one digest per scenario; the digests must be identical under "
               "{gcc,clang} x {-O0,-O2,-Os} x {-fsigned-char,-funsigned-char}, gcc -O3, clang -O3 and under gcc/clang ASan+UBSan, which must also stay silent. On inequality the scenario is re-run under both builds and the "
               "full transcripts are diffed. Only x86-64 is available: word size and endianness are not varied.",
    technique="cross-build differential monitor: per-scenario transcript digests compared across 16 (C) + 8 (C++) build configurations incl. sanitizer builds",
    level_note=LVL_NOTE + " No 32-bit or ARM toolchain/emulator in this sandbox; -funsigned-char is the one Cortex-M trait reproduced.",
    title="Behaviour does not depend on compiler, optimisation level or char signedness",
    rule="one evaluation = one scenario executed under one build; non-trivial = every scenario; distinct = distinct transcript digests (identical across builds by the oracle, so this counts distinct scenarios)",
    assumptions=["the harness itself uses only uint8_t/fixed-width types for data so that -funsigned-char cannot change its own behaviour and never draws two PRNG values in one expression",
                 "the C++ wrapper has its own transcript group (serialize bytes, toStr text, outcome and re-serialisation of the three deserialize overloads) compared across 8 builds"],
    post="compare_transcripts",
    jobs=[dict(name="xs_" + b, src=XS, build=b, mode="c18", group="c", cases=(40000, 1000000), require=["transcript_bytes", "documents_valid", "documents_invalid", "text_scenarios", "writer_scenarios"]) for b in _XSB]
         + [dict(name="xscpp_" + b, src=["w_cpp.cpp", "vh.c"], lib=CPPLIB, build=b, mode="c18x", group="cpp", cases=(40000, 400000), require=["transcript_bytes", "cpp_scenarios"])
            for b in ["gccO2s", "gccO0u", "gccOsu", "clangO0s", "clangO2u", "clangOss", "gasan", "casan"]],
)

FOOT = ["w_foot.c", "vh.c"]
ENGINE_NOTES["w_foot.c"] = "footprint monitors: allocator interposer, painted alternate stack, writable-segment snapshot of the library built as .so, interleaved/threaded sessions, coverage of the workload"
_WRAP = "-Wl,-z,now " + " ".join("-Wl,--wrap=" + f for f in ["malloc", "calloc", "realloc", "free", "aligned_alloc", "posix_memalign", "strdup", "strndup", "mmap", "sbrk"])
BUILDS["plainOs"] = dict(cc="gcc", cxx="g++", flags="-Os -g")
BUILDS["cov"] = dict(cc="gcc", cxx="g++", flags="-O0 -g --coverage")
_FJ = []
for _b in ("plainO0", "plainO2", "plainOs"):
    for _pr, _defs in (("p", "-DBINSON_PARSER_WITH_PRINT"), ("n", "")):
        _FJ.append(dict(name="alloc_%s%s" % (_b[5:], _pr), src=FOOT, build=_b, defs=_defs, hdefs="-DFOOT_WRAP", ldflags=_WRAP, mode="alloc", cases=(40000, 600000), require=["library_calls"]))
        _FJ.append(dict(name="stack_%s%s" % (_b[5:], _pr), src=FOOT, build=_b, defs=_defs, ldflags="-Wl,-z,now", mode="stack", cases=(16, 16), require=["stack_measurements"]))
    _FJ.append(dict(name="seg_%s" % _b[5:], src=FOOT, build=_b, solib=True, ldflags="-Wl,-z,now", mode="seg", cases=(40000, 600000), require=["library_calls", "max_writable_segment_bytes"]))
_FJ.append(dict(name="inter", src=FOOT, build="gasan", mode="inter", cases=(60000, 1000000), require=["interleaved_calls"]))
_FJ.append(dict(name="tsan", src=FOOT, build="tsan", mode="tsan", cases=(16, 16), workers=4, require=["threaded_sessions"], crash_is_violation=True))
_FJ.append(dict(name="cov", src=FOOT, build="cov", mode="cov", cases=(40000, 200000), coverage=True, require=["library_calls"]))
CHECKS["C17"] = dict(
    level_text="The statement asks for a static fact about the object code; runtime monitoring decides the same claim on the executions driven, with the reach of the workload measured (gcov line coverage of "
               "binson_parser.c / binson_writer.c, inconclusive below 90 %). Monitors on gcc -O0/-O2/-Os with and without BINSON_PARSER_WITH_PRINT: allocator interposer (10 allocation entry points wrapped at "
               "link time, counted only while a library call is in progress), painted alternate stack (high-water mark over object nesting {1,8,64,255} x array nesting {1,255} x string {1,70000} must "
               "agree within 64 B and stay under 3 KiB incl. harness frame; text functions within 1 KiB and under 48 KiB), writable PT_LOAD segments of the library built as a .so hashed before/after the "
               "workload, two sessions interleaved call by call, and 8 threads with private objects under ThreadSanitizer.",
    technique="runtime footprint monitors: link-time allocator interposer, painted makecontext stack, ELF writable-segment snapshot, interleaved and TSan-threaded sessions; gcov reach evidence",
    level_note=LVL_NOTE + " Weaker than the statement: paths the workload does not execute are not covered (uncovered lines are listed in the evidence).",
    title="No heap, no recursion, no writable globals: footprint fixed by the caller",
    rule="alloc/seg/cov: one case = one document (valid tree / ladder / mutant) driven through init, verify, navigation, lookups, getters, get_raw, to_writer, to_string, print and a writer call list; "
         "stack: one measurement per (object nesting, array nesting, string length) and call family; inter: one pair of sessions; tsan: 8 threads x 200 sessions x 20 repetitions per worker. "
         "non-trivial = every case; distinct = hash(document, depth) / measurement parameters / session pair",
    assumptions=["--wrap rewrites only references from the linked objects (library + harness), so glibc's own stdio buffers are not counted", "stack measurements include a constant harness frame",
                 "a write to static data that restores the old value before the end of the workload would not change the segment hash"],
    post="coverage",
    jobs=_FJ,
)
