"""props.py — per-property check definitions for ./check (see DESIGN.md section 3)."""

GASAN = "-O1 -g -fno-omit-frame-pointer -fsanitize=address,undefined -fno-sanitize-recover=all"
BUILDS = {
    "gasan": dict(cc="gcc", cxx="g++", flags=GASAN),
    "casan": dict(cc="clang", cxx="clang++", flags="-O1 -g -fno-omit-frame-pointer -fsanitize=address,undefined -fno-sanitize=pointer-overflow -fno-sanitize-recover=all"),
    "msan": dict(cc="clang", cxx="clang++", flags="-O1 -g -fno-omit-frame-pointer -fsanitize=memory -fsanitize-memory-track-origins"),
    "plainO2": dict(cc="gcc", cxx="g++", flags="-O2 -g"),
    "plainO0": dict(cc="gcc", cxx="g++", flags="-O0 -g"),
    "tsan": dict(cc="gcc", cxx="g++", flags="-O1 -g -fsanitize=thread"),
}

WALK = ["w_walk.c", "vh.c"]

HOOKS = dict(
    guard="BINSON_VERIF",
    enable="none needed: every observation point is public API (return values, error_flags, buffer_used, depth, the cb/cb_context token callback, returned bbufs, destination buffers); "
           "the guard name is reserved and no source in /repo tests it",
    baseline_off_cmd="./run_repo_tests.sh",
    source_commits=[],
    add_only=True,
)
NOTES = ("Runtime monitoring only. ./check <ID> compiles /repo/src/*.c(pp) from the working tree with its own sanitizer flags, drives 16 worker processes, "
         "and decides by oracles written independently of the library (harness/vh.c: tree model, encoder, recogniser, reference cursor, renderer). "
         "Exit 0 held / 1 VIOLATION / 2 inconclusive (harness failure). known_findings.txt lists repaired defects (fixed:) and would list unrepaired ones (known:).")
ENGINE_NOTES = {
    "w_walk.c": "valid documents: full traversal, random and explicit-state protocol-following walks against a reference cursor, decode->encode transcription (gcc ASan+UBSan)",
}
LVL_NOTE = ("Trusted base: the harness oracles (harness/vh.c), gcc/clang sanitizer runtimes, x86-64 Linux. Holds only for the executions driven; "
            "counts of what was executed and observed are in the evidence file.")

CHECKS = {}

CHECKS["C03"] = dict(
    level_text='Every generated valid document is traversed completely by the real parser under ASan+UBSan and every getter result, span pointer and neutral result is compared with an independent tree model; hundreds of thousands (quick) to millions (thorough) of documents incl. nesting ladders to 255 levels and all width/length boundaries. Exploration: held on the documents executed.',
    technique='differential runtime monitor: real parser vs independent encoder/tree model over generated valid documents, ASan+UBSan',
    level_note=LVL_NOTE,
    title="A full traversal decodes exactly what the bytes encode, in place",
    rule="one case = one valid document (random tree from the shape generator, or one of the 220 valid corpus files) encoded by the independent encoder "
         "and visited completely with next/go_into/leave; after every successful next all getters, name/payload spans (pointer identity), neutral results of "
         "the other getters and string_equals probes are compared. non-trivial = at least 2 values visited; distinct = hash(document bytes, root kind)",
    assumptions=["the independent encoder/tree model in harness/vh.c is the specification of what bytes encode",
                 "x86-64 only; gcc ASan+UBSan build of the library compiled from the working tree"],
    jobs=[dict(name="c03", src=WALK, build="gasan", mode="c03", cases=(300000, 6000000), require=["values_compared", "corpus_documents"])],
)

CHECKS["C06"] = dict(
    level_text='Explicit-state execution of the real parser over all small trees (every reachable (reference cursor, parser memory) state x every protocol-following call, so sequences of any length) plus random long walks on large documents, each call compared with a reference cursor. Exhaustive within the stated tree bound, sampled beyond it.',
    technique='history + executable model: reference cursor vs real parser, exhaustive product-state execution on small trees and random walks, ASan+UBSan',
    level_note=LVL_NOTE,
    title="Cursor navigation (next/enter/skip/leave) matches the document structure",
    rule="explicit-state part: every container-rooted tree with <= N nodes over {int,string,object,array} (N=5 quick, 6 thorough); from every reachable product state "
         "(reference cursor x bytes of the real parser struct and state array) every protocol-following call is executed on a restored copy and compared, successors "
         "deduplicated by hash, so call sequences of any length on those trees are covered. random part: one case = random valid document x random protocol-following walk "
         "(next, go_into, leave, get_raw, lookups of present names). non-trivial = walk of >= 3 calls on a document with >= 2 nodes; distinct = hash(document, call list) / tree code",
    exhaustive_note="all trees with <= N nodes x all reachable (cursor, parser memory) states x all protocol-following calls",
    assumptions=["the reference cursor in harness/vh.c (vc_*) is the sequential specification", "64-bit state hashes: a collision could hide a state (probability < 1e-9 per run)"],
    jobs=[dict(name="c06x", src=WALK, build="gasan", mode="c06x", cases=(3290, 28506), opt=("5", "6"), require=["product_states", "transitions"]),
          dict(name="c06r", src=WALK, build="gasan", mode="c06r", cases=(200000, 5000000), require=["calls"])],
)

CHECKS["C07"] = dict(
    level_text='Same engine as C06 with the full lookup alphabet (present, prefix, extension, before, after, empty; all four lookup entry points; wrong-type ensure) on all small trees, plus random lookup series over hostile name families on large objects; each result, the getters after a hit, and all later calls are compared with the reference cursor.',
    technique='history + executable model: lookups vs reference cursor, exhaustive on small trees + random hostile name families, ASan+UBSan',
    level_note=LVL_NOTE,
    title="Field lookup finds exactly the present names and never loses later fields",
    rule="explicit-state part as C06 with the lookup alphabet = present names, a proper prefix and an extension of each, a name before/after everything, the empty name, "
         "through field/field_with_length/field_ensure/field_ensure_with_length incl. wrong-type ensure (terminal: must return false and set WRONG_TYPE). random part: objects with "
         "names from prefix/extension/sign/NUL families and 127..300-byte names x random lookup series (ascending-only series in a third of the cases) interleaved with next/enter/leave. "
         "non-trivial = walk of >= 3 calls; distinct = hash(document, call list)",
    exhaustive_note="all trees with <= N nodes x all reachable product states x the full lookup alphabet",
    assumptions=["reference cursor vc_field is the specification of a lookup", "lookups are issued only inside objects"],
    jobs=[dict(name="c07x", src=WALK, build="gasan", mode="c07x", cases=(3290, 28506), opt=("5", "6"), require=["product_states", "lookups_found", "lookups_absent", "wrong_type_raised"]),
          dict(name="c07r", src=WALK, build="gasan", mode="c07r", cases=(200000, 5000000), require=["calls", "lookups_found", "lookups_absent"])],
)

CHECKS["C10"] = dict(
    level_text="Metamorphic monitor: the real parser's answers drive the real writer; the output must equal the input for every generated valid object-rooted document and every valid corpus file. No reference model is consulted, so an error shared by encoder and library cannot hide.",
    technique='metamorphic round trip decode->encode on generated valid documents and the shipped corpus, exact-size destination under ASan',
    level_note=LVL_NOTE,
    title="Decode then encode reproduces every valid document byte for byte",
    rule="one case = one valid object-rooted document (random tree or valid corpus file) walked with next/go_into/leave, every decoded name and value handed to the matching "
         "binson_write_* call into an exact-size destination; output must equal the input bytes. The transcriber is driven only by the parser's answers. "
         "non-trivial = document with >= 2 nodes; distinct = hash(document bytes)",
    assumptions=["documents come from the independent encoder or the shipped corpus"],
    jobs=[dict(name="c10", src=WALK, build="gasan", mode="c10", cases=(300000, 6000000), require=["bytes_transcribed", "corpus_documents"])],
)

CHECKS["C11"] = dict(
    level_text="Same engine as C06 with get_raw / parser_to_writer at every position where a value is current: span identity against the encoder's span, standalone verify of the span, bytes appended to exact-size and too-small writers, no effect on scalars, and the following element, exhaustively on small trees and randomly on large ones.",
    technique='history + executable model with span oracle: get_raw/to_writer vs encoder spans, exhaustive on small trees + random walks, ASan+UBSan',
    level_note=LVL_NOTE,
    title="get_raw / parser_to_writer return exactly the bytes of the current container",
    rule="as C06 with get_raw / to_writer (exact-size and too-small writers, with 0..2 bytes already written) in the alphabet at every position where a value is current: "
         "span start/size vs the encoder's span, verify of the extracted span as a standalone document, bytes appended to the writer, false + unchanged cursor/writer on scalars, "
         "and the element that follows. non-trivial = walk of >= 3 calls; distinct = hash(document, call list) / tree code",
    exhaustive_note="all trees with <= N nodes x all reachable product states with get_raw/to_writer in the alphabet",
    assumptions=["reference cursor + encoder spans are the specification"],
    jobs=[dict(name="c11x", src=WALK, build="gasan", mode="c11x", cases=(3290, 28506), opt=("5", "6"), require=["product_states", "raw_spans_checked", "to_writer_checked", "raw_on_scalar"]),
          dict(name="c11r", src=WALK, build="gasan", mode="c11r", cases=(200000, 5000000), require=["calls", "raw_spans_checked", "to_writer_checked"])],
)
