/* w_walk.c — valid documents: full traversal (C03), protocol-following walks against the
 * reference cursor (C06 navigation, C07 lookups, C11 raw extraction), random and by
 * explicit-state exploration of (reference cursor x real parser memory), and
 * decode->encode transcription (C10).
 *
 * modes: c03 | c06r c07r c11r | c06x c07x c11x | c10
 */
#define _GNU_SOURCE
#include "vh.h"

/* the public per-token callback: results must not depend on whether the application installed one */
static uint64_t cb_tokens;
static void noop_cb(binson_parser *p, uint16_t next_state, void *ctx) { (void)p; (void)next_state; (void)ctx; cb_tokens++; }
#define MAYBE_CB(c, r) do { if (vrn((r), 5) == 0) { (c).p->cb = noop_cb; (c).p->cb_context = NULL; vw_count("cases_with_token_callback", 1); } } while (0)

/* ------------------------------------------------------------------ context -- */
enum { OP_NEXT = 1, OP_ENTER, OP_LEAVE, OP_RAW, OP_TOWRITER, OP_FIELD, OP_FIELD_E, OP_FIELD_WRONG, OP_NEXT_E, OP_NEXT_WRONG, OP_RAW_SMALL };
static const char *opname[] = { "?", "next", "go_into", "leave", "get_raw", "to_writer", "field", "field_ensure", "field_ensure(wrong type)", "next_ensure", "next_ensure(wrong type)", "to_writer(small dest)" };

typedef struct {
    vnode *root;
    vbuf doc;
    uint8_t *buf; size_t n;          /* exact-size copy the parser reads */
    binson_parser *p;
    binson_state *st; int max_depth;
    vcur m;
    char flavor;                     /* '6' navigation, '7' lookups, 'b' raw */
    vbuf trace;
    bool dead;                       /* an expected error was provoked: the walk ends */
    vrng *r;
} wctx;

static int obj_levels(const vnode *n, int od)
{
    int here = od + (n->kind == K_OBJ ? 1 : 0), best = here;
    for (uint32_t i = 0; i < n->nkids; i++) { int d = obj_levels(n->kids[i], here); if (d > best) best = d; }
    return best;
}

static void ctx_open(wctx *c, vnode *root, int extra_depth)
{
    c->root = root;
    vb_reset(&c->doc);
    vt_encode(root, &c->doc);
    c->n = c->doc.n;
    c->buf = vg_exact(c->n);
    memcpy(c->buf, c->doc.p, c->n);
    c->max_depth = obj_levels(root, root->kind == K_ARR ? 1 : 0) + extra_depth;
    if (c->max_depth < 1) c->max_depth = 1;
    if (c->max_depth > 255) c->max_depth = 255;
    c->p = (binson_parser *)malloc(sizeof(binson_parser));
    c->st = (binson_state *)malloc(sizeof(binson_state) * (size_t)c->max_depth);
    memset(c->p, 0xA5, sizeof(binson_parser));
    memset(c->st, 0x5A, sizeof(binson_state) * (size_t)c->max_depth);
    c->p->state = c->st;
    c->p->max_depth = (uint_fast8_t)c->max_depth;
    vc_init(&c->m, root);
    vb_reset(&c->trace);
    c->dead = false;
}
static void ctx_close(wctx *c)
{
    vb_free(&c->doc); vb_free(&c->trace);
    vg_free(c->buf, c->n); c->buf = NULL;
    free(c->p); free(c->st); c->p = NULL; c->st = NULL;
}

static void report(wctx *c, const char *sig, const char *what)
{
    vbuf d; memset(&d, 0, sizeof d);
    vb_printf(&d, "%s\ndocument (%zu bytes, %s-rooted, max_depth=%d): ", what, c->n, vkind_name(c->root->kind), c->max_depth);
    vb_hex(&d, c->doc.p, c->n, 400);
    vb_printf(&d, "\ntree: ");
    vt_describe(c->root, &d, (int)d.n + 600);
    vb_printf(&d, "\ncalls: %s", c->trace.n ? vb_cstr(&c->trace) : "(none)");
    vw_violation(sig, "%s", vb_cstr(&d));
    vb_free(&d);
}

/* after a call that positioned the cursor on a value */
static bool check_position(wctx *c, const char *opn, bool thorough)
{
    vnode *cur = vc_current(&c->m);
    if (cur) {
        const char *e = vc_check_getters(c->p, cur, vc_in_object(&c->m), c->buf, thorough, c->r);
        if (e) {
            char sig[160], what[700];
            char kind[40]; snprintf(kind, sizeof kind, "%.30s", e); for (char *q = kind; *q; q++) if (*q == ' ' || *q == '=') { *q = 0; break; }
            snprintf(sig, sizeof sig, "walk:getter:%s:after-%s:%s", kind, opn, vkind_name(cur->kind));
            snprintf(what, sizeof what, "after %s returned true the getters disagree with the document: %s", opn, e);
            report(c, sig, what);
            return false;
        }
    }
    return true;
}
static bool check_common(wctx *c, const char *opn)
{
    if (c->p->error_flags != BINSON_ERROR_NONE) {
        char sig[160], what[300];
        snprintf(sig, sizeof sig, "walk:error:%s:after-%s", verr_name((int)c->p->error_flags), opn);
        snprintf(what, sizeof what, "error_flags=%s after %s on a valid document", verr_name((int)c->p->error_flags), opn);
        report(c, sig, what);
        return false;
    }
    size_t d = binson_parser_get_depth(c->p);
    if ((int)d != vc_depth(&c->m)) {
        char sig[160], what[300];
        snprintf(sig, sizeof sig, "walk:depth:after-%s", opn);
        snprintf(what, sizeof what, "get_depth=%zu after %s, reference cursor says %d", d, opn, vc_depth(&c->m));
        report(c, sig, what);
        return false;
    }
    return true;
}
static bool mismatch_ret(wctx *c, const char *opn, bool got, bool exp)
{
    char sig[200], what[400];
    vnode *cur = vc_current(&c->m);
    snprintf(sig, sizeof sig, "walk:ret:%s:got-%d:in-%s:on-%s", opn, got, vkind_name(vc_innermost(&c->m)), cur ? vkind_name(cur->kind) : "nothing");
    snprintf(what, sizeof what, "%s returned %s, the reference cursor expects %s (error_flags=%s)", opn, got ? "true" : "false", exp ? "true" : "false", verr_name((int)c->p->error_flags));
    report(c, sig, what);
    return false;
}

/* applies one protocol-following call to parser and model; returns false on mismatch */
static bool apply_op(wctx *c, int op, const uint8_t *name, size_t nlen, int variant)
{
    binson_parser *p = c->p;
    bool got, exp;
    switch (op) {
    case OP_NEXT:
    case OP_NEXT_E: {
        vb_printf(&c->trace, "%s ", opname[op]);
        vcur save = c->m; (void)save;
        exp = vc_next(&c->m);
        if (op == OP_NEXT) got = binson_parser_next(p);
        else {
            vnode *cur = vc_current(&c->m);
            got = binson_parser_next_ensure(p, cur ? vt_btype(cur) : BINSON_TYPE_INTEGER);
        }
        if (got != exp) return mismatch_ret(c, opname[op], got, exp);
        if (!check_common(c, opname[op])) return false;
        if (got && !check_position(c, opname[op], c->flavor == '3')) return false;
        return true;
    }
    case OP_NEXT_WRONG: {
        vb_printf(&c->trace, "%s ", opname[op]);
        exp = vc_next(&c->m);
        vnode *cur = vc_current(&c->m);
        binson_type wrong = (cur && vt_btype(cur) == BINSON_TYPE_BOOLEAN) ? BINSON_TYPE_STRING : BINSON_TYPE_BOOLEAN;
        got = binson_parser_next_ensure(p, wrong);
        if (got) return mismatch_ret(c, opname[op], got, false);
        if (exp && p->error_flags != BINSON_ERROR_WRONG_TYPE) {
            report(c, "walk:ensure:next_ensure-no-WRONG_TYPE", "next_ensure with a non-matching type returned false without setting WRONG_TYPE");
            return false;
        }
        if (exp) c->dead = true; else if (!check_common(c, opname[op])) return false;
        return true;
    }
    case OP_ENTER: {
        int kind = c->m.started ? vc_current(&c->m)->kind : c->root->kind;
        vb_printf(&c->trace, "go_into_%s ", vkind_name(kind));
        vc_enter(&c->m);
        got = (kind == K_OBJ) ? binson_parser_go_into_object(p) : binson_parser_go_into_array(p);
        if (!got) return mismatch_ret(c, kind == K_OBJ ? "go_into_object" : "go_into_array", got, true);
        return check_common(c, "go_into");
    }
    case OP_LEAVE: {
        int kind = vc_innermost(&c->m);
        vb_printf(&c->trace, "leave_%s ", vkind_name(kind));
        vc_leave(&c->m);
        got = (kind == K_OBJ) ? binson_parser_leave_object(p) : binson_parser_leave_array(p);
        if (!got) return mismatch_ret(c, kind == K_OBJ ? "leave_object" : "leave_array", got, true);
        return check_common(c, "leave");
    }
    case OP_RAW: {
        vnode *cur = vc_current(&c->m);
        vb_printf(&c->trace, "get_raw ");
        bbuf raw; raw.bptr = NULL; raw.bsize = 12345;
        got = binson_parser_get_raw(p, &raw);
        bool cont = cur->kind == K_OBJ || cur->kind == K_ARR;
        if (got != cont) return mismatch_ret(c, "get_raw", got, cont);
        if (cont) {
            vc_consume(&c->m);
            if (raw.bptr != c->buf + cur->off || raw.bsize != cur->len) {
                char what[300];
                snprintf(what, sizeof what, "get_raw span off=%ld size=%zu, the container occupies off=%u size=%u", (long)(raw.bptr - c->buf), raw.bsize, cur->off, cur->len);
                report(c, "walk:raw:span", what);
                return false;
            }
            /* the span must be a valid standalone document of that kind */
            binson_state st2[8]; binson_parser p2; int need = obj_levels(cur, cur->kind == K_ARR ? 1 : 0);
            binson_state *stp = st2;
            if (need > 8) stp = (binson_state *)malloc(sizeof(binson_state) * (size_t)need);
            memset(&p2, 0, sizeof p2);
            p2.state = stp; p2.max_depth = (uint_fast8_t)(need < 1 ? 1 : need);
            bool ok = (cur->kind == K_OBJ ? binson_parser_init_object(&p2, raw.bptr, raw.bsize) : binson_parser_init_array(&p2, raw.bptr, raw.bsize)) && binson_parser_verify(&p2);
            if (stp != st2) free(stp);
            if (!ok) { report(c, "walk:raw:not-standalone", "the span returned by get_raw is rejected by verify as a standalone document"); return false; }
            vw_count("raw_spans_checked", 1);
        } else vw_count("raw_on_scalar", 1);
        return check_common(c, "get_raw");
    }
    case OP_TOWRITER:
    case OP_RAW_SMALL: {
        vnode *cur = vc_current(&c->m);
        bool cont = cur->kind == K_OBJ || cur->kind == K_ARR;
        vb_printf(&c->trace, "%s ", opname[op]);
        size_t cap = cont ? cur->len : 4;
        if (op == OP_RAW_SMALL && cont) cap = cur->len - 1 - (variant % 2 ? 0 : cur->len / 2);
        size_t pre = (size_t)(variant % 3);             /* bytes already in the writer */
        uint8_t *dst = (uint8_t *)malloc(cap + pre + 32);
        memset(dst, 0xEE, cap + pre + 32);
        binson_writer w;
        binson_writer_init(&w, dst, cap + pre);
        for (size_t i = 0; i < pre; i++) binson_write_boolean(&w, true);
        got = binson_parser_to_writer(p, &w);
        bool expect = cont && op == OP_TOWRITER;
        bool ok = true;
        if (got != expect) { ok = mismatch_ret(c, opname[op], got, expect); }
        else if (cont) {
            vc_consume(&c->m);
            if (op == OP_TOWRITER) {
                if (binson_writer_get_counter(&w) != pre + cur->len || w.error_flags != BINSON_ERROR_NONE || memcmp(dst + pre, c->buf + cur->off, cur->len) != 0) {
                    report(c, "walk:towriter:bytes", "binson_parser_to_writer did not append exactly the container's bytes");
                    ok = false;
                }
                vw_count("to_writer_checked", 1);
            } else {
                if (w.error_flags != BINSON_ERROR_RANGE || binson_writer_get_counter(&w) != pre + cur->len) {
                    report(c, "walk:towriter:small", "to_writer into a too small writer: expected RANGE and the full size in the counter");
                    ok = false;
                }
                vw_count("to_writer_small", 1);
            }
        } else {
            if (binson_writer_get_counter(&w) != pre || w.error_flags != BINSON_ERROR_NONE) {
                report(c, "walk:towriter:scalar-changed-writer", "to_writer on a scalar value changed the writer");
                ok = false;
            }
            vw_count("to_writer_on_scalar", 1);
        }
        for (size_t i = cap + pre; ok && i < cap + pre + 32; i++) if (dst[i] != 0xEE) { report(c, "walk:towriter:overrun", "to_writer stored past the writer's capacity"); ok = false; }
        free(dst);
        if (!ok) return false;
        return check_common(c, opname[op]);
    }
    case OP_FIELD:
    case OP_FIELD_E:
    case OP_FIELD_WRONG: {
        vb_printf(&c->trace, "%s(", opname[op]); vb_hex(&c->trace, name, nlen, 12); vb_printf(&c->trace, ") ");
        /* the name lives in its own exact-size block - or (variant bit 0x4000) is handed over where it lies: inside the document */
        bool alias = (variant & 0x4000) != 0;
        uint8_t *nm = alias ? (uint8_t *)(uintptr_t)name : vg_exact(nlen + 1);
        if (!alias) { if (nlen) memcpy(nm, name, nlen); nm[nlen] = 0; }
        bool has_nul = alias || memchr(name, 0, nlen) != NULL;
        if (alias) vw_count("lookups_name_inside_document", 1);
        exp = vc_field(&c->m, name, nlen);
        vnode *cur = vc_current(&c->m);
        bool ok = true;
        if (op == OP_FIELD) {
            if (!has_nul && (variant & 1)) got = binson_parser_field(p, (const char *)nm);
            else got = binson_parser_field_with_length(p, (const char *)nm, nlen);
            if (got != exp) ok = mismatch_ret(c, "field", got, exp);
        } else if (op == OP_FIELD_E) {
            binson_type t = cur ? vt_btype(cur) : (binson_type)(BINSON_TYPE_BOOLEAN + variant % 5);
            if (!has_nul && (variant & 1)) got = binson_parser_field_ensure(p, (const char *)nm, t);
            else got = binson_parser_field_ensure_with_length(p, (const char *)nm, nlen, t);
            if (got != exp) ok = mismatch_ret(c, "field_ensure", got, exp);
        } else {
            binson_type wrong = (cur && vt_btype(cur) == BINSON_TYPE_INTEGER) ? BINSON_TYPE_STRING : BINSON_TYPE_INTEGER;
            if (!has_nul && (variant & 1)) got = binson_parser_field_ensure(p, (const char *)nm, wrong);
            else got = binson_parser_field_ensure_with_length(p, (const char *)nm, nlen, wrong);
            if (got) ok = mismatch_ret(c, "field_ensure(wrong type)", got, false);
            else if (exp) {
                if (p->error_flags != BINSON_ERROR_WRONG_TYPE) { report(c, "walk:ensure:field_ensure-no-WRONG_TYPE", "field_ensure found the field with another type but did not set WRONG_TYPE"); ok = false; }
                c->dead = true;
                vw_count("wrong_type_raised", 1);
            }
        }
        if (!alias) vg_free(nm, nlen + 1);
        if (!ok) return false;
        if (c->dead) return true;
        vw_count(exp ? "lookups_found" : "lookups_absent", 1);
        if (!check_common(c, opname[op])) return false;
        if (got && !check_position(c, opname[op], false)) return false;
        return true;
    }
    }
    return true;
}

/* --------------------------------------------------------------- tree sources -- */
static vnode *random_tree(vrng *r, int flavor)
{
    vgen g;
    int rootk = vrn(r, 3) == 0 ? K_ARR : K_OBJ;
    vg_default(&g, rootk);
    uint32_t shape = vrn(r, 100);
    if (vrn(r, 40) == 0) {
        static const int lim[] = { 255, 254, 255, 100, 30 };
        return vt_ladder(r, rootk, lim[vrn(r, 5)], lim[vrn(r, 5)]);
    }
    if (vrn(r, 50) == 0) {
        /* wide: a root with hundreds of siblings (a lookup then steps over hundreds of smaller names, a skip over hundreds of
         * elements); the children are scalars or small subtrees, the names unique by construction */
        vnode *root = vt_new(rootk);
        int n = 200 + (int)vrn(r, vrn(r, 3) ? 300 : 1200);
        vgen gs; vg_default(&gs, K_OBJ); gs.max_nodes = 4; gs.big_permille = 0; gs.huge_permille = 0;
        for (int k = 0; k < n; k++) {
            vnode *kid;
            uint32_t t = vrn(r, 20);
            if (t == 0) { gs.root_kind = vrn(r, 2) ? K_OBJ : K_ARR; kid = vt_gen(r, &gs); }
            else if (t < 4) { uint8_t b[3] = { (uint8_t)vr64(r), (uint8_t)vr64(r), (uint8_t)vr64(r) }; kid = vt_str(t == 1 ? K_BYTES : K_STR, b, vrn(r, 4)); }
            else kid = vt_int(vt_rand_int(r));
            if (rootk == K_OBJ) {
                uint8_t nm[5]; uint32_t nl = 0;
                if (vrn(r, 2)) nm[nl++] = (uint8_t)vr64(r);
                nm[nl++] = (uint8_t)(k >> 8); nm[nl++] = (uint8_t)k;
                if (vrn(r, 3) == 0) nm[nl++] = (uint8_t)vr64(r);
                vt_setname(kid, nm, nl);
            }
            vt_add(root, kid);
        }
        if (rootk == K_OBJ) vt_sortfields(root);
        vw_count("wide_documents", 1);
        vw_max("max_siblings", root->nkids);
        return root;
    }
    if (shape < 45) { g.max_nodes = 4 + (int)vrn(r, 20); }
    else if (shape < 70) { g.max_nodes = 30 + (int)vrn(r, 120); g.max_width = 12; g.container_permille = 400; }
    else if (shape < 80) { g.max_nodes = 40 + (int)vrn(r, 600); g.max_width = 2; g.container_permille = 930; g.max_obj_depth = 50 + (int)vrn(r, 206); g.max_arr_depth = 3; g.big_permille = 0; g.huge_permille = 0; }
    else if (shape < 88) { g.max_nodes = 40 + (int)vrn(r, 600); g.max_width = 2; g.container_permille = 930; g.max_obj_depth = 3; g.max_arr_depth = 50 + (int)vrn(r, 206); g.big_permille = 0; g.huge_permille = 0; }
    else if (shape < 95) { g.max_nodes = 10 + (int)vrn(r, 30); g.big_permille = 300; g.huge_permille = 40; }
    else { g.max_nodes = 200 + (int)vrn(r, 2000); g.max_width = 40; g.container_permille = 250; g.huge_permille = 1; }
    if (flavor == '7') { g.container_permille = 250; if (g.max_width < 10) g.max_width = 10; }
    if (flavor == 'b' || flavor == '6') g.container_permille += 200;
    if (g.container_permille > 950) g.container_permille = 950;
    return vt_gen(r, &g);
}


/* prior history: a partial protocol-following walk that is abandoned, then a restart with reset or verify
 * (both must succeed on a valid document). What follows must not depend on it. */
static bool prior_history(wctx *c, vrng *r)
{
    if (!apply_op(c, OP_ENTER, NULL, 0, 0)) return false;
    uint32_t steps = 1 + vrn(r, 25);
    for (uint32_t i = 0; i < steps && !c->m.done; i++) {
        vnode *cur = vc_current(&c->m);
        bool cont = cur && (cur->kind == K_OBJ || cur->kind == K_ARR);
        int op = OP_NEXT;
        if (cont && vrn(r, 10) < 7) op = OP_ENTER;
        else if (vrn(r, 12) == 0 && c->m.nf > 1) op = OP_LEAVE;
        if (!apply_op(c, op, NULL, 0, 0)) return false;
    }
    vw_count("prior_history_depth_total", (uint64_t)c->m.nf);
    bool ok; const char *how;
    if (vrn(r, 2)) { ok = binson_parser_reset(c->p); how = "reset"; } else { ok = binson_parser_verify(c->p); how = "verify"; }
    vb_printf(&c->trace, "[abandoned] %s ", how);
    if (!ok) { char what[120]; snprintf(what, sizeof what, "%s returned false on a valid document after a partial traversal (error_flags=%s)", how, verr_name((int)c->p->error_flags)); report(c, "walk:restart-failed", what); return false; }
    vc_init(&c->m, c->root);
    vw_count("restarts_with_prior_history", 1);
    return true;
}

/* --------------------------------------------------------------------- C03 -- */
static bool visit(wctx *c, vnode *cont, uint64_t *events)
{
    for (uint32_t i = 0; i < cont->nkids; i++) {
        if (!apply_op(c, OP_NEXT, NULL, 0, 0)) return false;
        (*events)++;
        vnode *k = cont->kids[i];
        if (k->kind == K_OBJ || k->kind == K_ARR) {
            if (!apply_op(c, OP_ENTER, NULL, 0, 0)) return false;
            if (!visit(c, k, events)) return false;
            if (!apply_op(c, OP_LEAVE, NULL, 0, 0)) return false;
        }
        if (c->trace.n > 4000) vb_reset(&c->trace);
    }
    if (!apply_op(c, OP_NEXT, NULL, 0, 0)) return false;   /* must answer false at the end */
    return true;
}

static void case_c03(vrng *r, uint64_t caseno)
{
    wctx c; memset(&c, 0, sizeof c);
    c.r = r; c.flavor = '3';
    vnode *root;
    bool from_corpus = false;
    if (vncorpus && caseno < vncorpus && vcorpus[caseno].valid && vrecognise(vcorpus[caseno].p, vcorpus[caseno].n, K_OBJ, 255).ok) {
        root = vt_decode(vcorpus[caseno].p, vcorpus[caseno].n, K_OBJ);
        from_corpus = true;
        vw_count("corpus_documents", 1);
    } else root = random_tree(r, '3');
    ctx_open(&c, root, (int)vrn(r, 3));
    if (from_corpus && (c.doc.n != vcorpus[caseno].n || memcmp(c.doc.p, vcorpus[caseno].p, c.doc.n) != 0)) {
        fprintf(stderr, "HARNESS: independent decoder/encoder do not reproduce corpus file %s\n", vcorpus[caseno].name);
        exit(2);
    }
    bool ok = (root->kind == K_OBJ) ? binson_parser_init_object(c.p, c.buf, c.n) : binson_parser_init_array(c.p, c.buf, c.n);
    uint64_t events = 0;
    if (ok) MAYBE_CB(c, r);
    if (!ok) report(&c, "c03:init-rejected", "init rejected a valid document");
    else if ((vrn(r, 3) != 0 || prior_history(&c, r)) && apply_op(&c, OP_ENTER, NULL, 0, 0) && visit(&c, root, &events) && apply_op(&c, OP_LEAVE, NULL, 0, 0)) {
        if (memcmp(c.buf, c.doc.p, c.n) != 0) report(&c, "c03:input-modified", "the input buffer was modified");
    }
    vw_count("values_compared", events);
    vw_max("max_doc_bytes", c.n);
    vw_max("max_object_levels", (uint64_t)c.max_depth);
    if (events >= 2) vw_nontrivial(vh_hash(c.doc.p, c.n, root->kind));
    if (vw_want_sample() && events >= 3 && c.n < 200) {
        vbuf s; memset(&s, 0, sizeof s);
        vb_printf(&s, "%s-rooted %zu bytes ", vkind_name(root->kind), c.n); vb_hex(&s, c.doc.p, c.n, 60);
        vb_printf(&s, " : %llu values visited and compared", (unsigned long long)events);
        vw_sample(vb_cstr(&s)); vb_free(&s);
    }
    ctx_close(&c);
}

/* in-place extraction: the writer's destination starts below the container inside the same memory the parser reads
 * (dst < src < dst+len); to_writer must still append exactly the container's bytes (the writer copies with memmove) */
static void inplace_case(vrng *r)
{
    vgen g; vg_default(&g, K_OBJ);
    g.max_nodes = 6 + (int)vrn(r, 30); g.container_permille = 500; g.hostile_names = 0; g.big_permille = 100;
    vnode *root = vt_gen(r, &g);
    vnode *target = NULL; uint32_t ti = 0;
    for (uint32_t i = 0; i < root->nkids; i++) if (root->kids[i]->kind == K_OBJ || root->kids[i]->kind == K_ARR) { target = root->kids[i]; ti = i; if (vrn(r, 2)) break; }
    if (!target) return;
    vbuf d; memset(&d, 0, sizeof d);
    vt_encode(root, &d);
    size_t K = vrn(r, 24);
    uint8_t *arena = (uint8_t *)malloc(K + d.n + 8);
    memcpy(arena + K, d.p, d.n);
    binson_state st[16]; binson_parser p; memset(&p, 0, sizeof p); memset(st, 0, sizeof st);
    int need = obj_levels(root, 0); if (need > 16) { free(arena); vb_free(&d); return; }
    p.state = st; p.max_depth = (uint_fast8_t)need;
    bool ok = binson_parser_init_object(&p, arena + K, d.n) && binson_parser_go_into_object(&p);
    for (uint32_t i = 0; ok && i <= ti; i++) ok = binson_parser_next(&p);
    if (ok) {
        uint8_t *snap = (uint8_t *)malloc(target->len);
        memcpy(snap, arena + K + target->off, target->len);
        binson_writer w; binson_writer_init(&w, arena, K + target->off + target->len);
        bool tw = binson_parser_to_writer(&p, &w);
        if (!tw || binson_writer_get_counter(&w) != target->len || memcmp(arena, snap, target->len) != 0) {
            char what[300]; snprintf(what, sizeof what, "in-place to_writer of a %u-byte container whose bytes start %zu bytes above the writer's destination in the same memory: ret=%d counter=%zu, output differs from the container's bytes", target->len, K + target->off, tw, binson_writer_get_counter(&w));
            vw_violation("walk:towriter:in-place", "%s", what);
        }
        vw_count("to_writer_in_place", 1);
        free(snap);
    }
    free(arena); vb_free(&d);
}

/* -------------------------------------------------------------- random walks -- */
static void pick_name(wctx *c, vrng *r, const uint8_t **np, size_t *nl)
{
    vframe *f = &c->m.f[c->m.nf - 1];
    vnode *o = f->c;
    uint32_t k = vrn(r, 100);
    static uint8_t tmp[80000];
    if (o->nkids && k < 45) {            /* a present name, biased to the ones still ahead */
        uint32_t j = (f->next < o->nkids && vrn(r, 4)) ? f->next + vrn(r, o->nkids - f->next) : vrn(r, o->nkids);
        *np = o->kids[j]->name; *nl = o->kids[j]->name_len; return;
    }
    if (o->nkids && k < 80) {            /* near miss of a present name */
        uint32_t j = vrn(r, o->nkids);
        size_t l = o->kids[j]->name_len;
        if (l > sizeof tmp - 2) l = sizeof tmp - 2;
        memcpy(tmp, o->kids[j]->name, l);
        switch (vrn(r, 5)) {
        case 0: if (l) l--; break;                                 /* proper prefix */
        case 1: tmp[l++] = (uint8_t)("\0a\xff\x80"[vrn(r, 4)]); break; /* extension */
        case 2: if (l) tmp[l - 1] = (uint8_t)(tmp[l - 1] + 1); break;
        case 3: if (l) tmp[l - 1] = (uint8_t)(tmp[l - 1] - 1); break;
        default: if (l) tmp[vrn(r, (uint32_t)l)] ^= 0x80; break;      /* sign bit */
        }
        *np = tmp; *nl = l; return;
    }
    vgen g; vg_default(&g, K_OBJ);
    const uint8_t *p; uint32_t n;
    vt_rand_name(r, &g, &p, &n);
    *np = p; *nl = n;
}

static void case_walk(vrng *r, uint64_t caseno, char flavor)
{
    (void)caseno;
    wctx c; memset(&c, 0, sizeof c);
    c.r = r; c.flavor = flavor;
    vnode *root = random_tree(r, flavor);
    ctx_open(&c, root, (int)vrn(r, 3));
    bool ok = (root->kind == K_OBJ) ? binson_parser_init_object(c.p, c.buf, c.n) : binson_parser_init_array(c.p, c.buf, c.n);
    uint32_t steps = 0, limit = 5 + vrn(r, vrn(r, 4) ? 60 : 400);
    uint32_t p_enter = 200 + vrn(r, 700), p_leave = 20 + vrn(r, 150), p_raw = (flavor == 'b') ? 350 : (flavor == '6' ? 120 : 60);
    uint32_t p_field = (flavor == '7') ? 600 : (flavor == '6' ? 60 : 100);
    bool ascending_only = flavor == '7' && vrn(r, 3) == 0;
    uint64_t oph = 0;
    if (!ok) { report(&c, "walk:init-rejected", "init rejected a valid document"); goto out; }
    MAYBE_CB(c, r);
    if (vrn(r, 4) == 0 && !prior_history(&c, r)) goto out;
    if (!apply_op(&c, OP_ENTER, NULL, 0, 0)) goto out;
    if (c.max_depth > 40 && vrn(r, 2)) {
        /* dive: follow the first container downwards (by next or by lookup) so that the walk proper happens at depth 100..255 */
        for (int dive = 0; dive < 600 && !c.m.done && !c.dead; dive++) {
            vframe *f = &c.m.f[c.m.nf - 1];
            uint32_t j = f->next;
            while (j < f->c->nkids && f->c->kids[j]->kind != K_OBJ && f->c->kids[j]->kind != K_ARR) j++;
            if (j >= f->c->nkids) break;
            if (f->c->kind == K_OBJ && vrn(r, 2)) { if (!apply_op(&c, vrn(r, 2) ? OP_FIELD : OP_FIELD_E, f->c->kids[j]->name, f->c->kids[j]->name_len, (int)vrn(r, 1000))) goto out; }
            else { bool bad = false; while (c.m.f[c.m.nf - 1].next <= j && !bad) bad = !apply_op(&c, OP_NEXT, NULL, 0, 0); if (bad) goto out; }
            if (!vc_current(&c.m)) break;
            if (!apply_op(&c, OP_ENTER, NULL, 0, 0)) goto out;
            steps++;
            if (c.trace.n > 3000) vb_reset(&c.trace);
        }
        vw_max("max_dive_depth", (uint64_t)c.m.nf);
    }
    while (!c.m.done && steps < limit && !c.dead) {
        steps++;
        vnode *cur = vc_current(&c.m);
        int op = OP_NEXT;
        bool cont = cur && (cur->kind == K_OBJ || cur->kind == K_ARR);
        if (cont && vrp(r, p_enter)) op = OP_ENTER;
        else if (cur && vrp(r, cont ? p_raw : p_raw / 4)) op = (flavor != '6' && vrn(r, 2)) ? (vrn(r, 4) == 0 ? OP_RAW_SMALL : OP_TOWRITER) : OP_RAW;
        else if (vrp(r, p_leave)) op = OP_LEAVE;
        else if (vc_in_object(&c.m) && vrp(r, p_field)) op = vrn(r, 3) == 0 ? OP_FIELD_E : OP_FIELD;
        else if (flavor != 'b' && vrn(r, 12) == 0) op = OP_NEXT_E;
        if (flavor == '7' && vrn(r, 60) == 0) op = vc_in_object(&c.m) && vrn(r, 2) ? OP_FIELD_WRONG : OP_NEXT_WRONG;
        if (op == OP_RAW_SMALL && !(cont && cur->len >= 2)) op = OP_TOWRITER;
        const uint8_t *np = NULL; size_t nl = 0;
        if (op == OP_FIELD || op == OP_FIELD_E || op == OP_FIELD_WRONG) {
            pick_name(&c, r, &np, &nl);
            if (ascending_only) {
                /* ascending series: only ask for names greater than everything already passed */
                vframe *f = &c.m.f[c.m.nf - 1];
                if (f->next > 0 && vt_namecmp(np, nl, f->c->kids[f->next - 1]->name, f->c->kids[f->next - 1]->name_len) <= 0) { op = OP_NEXT; }
            }
        }
        int variant = (int)vrn(r, 1000);
        if ((op == OP_FIELD || op == OP_FIELD_E) && !ascending_only && vrn(r, 10) == 0) {
            /* the name is any run of bytes: here one that starts where a present field's name is stored in the document itself
             * (as a caller gets it from get_name), shorter, equal or longer than that name */
            vframe *f = &c.m.f[c.m.nf - 1];
            if (f->c->nkids) {
                vnode *kid = f->c->kids[(f->next < f->c->nkids && vrn(r, 3)) ? f->next + vrn(r, f->c->nkids - f->next) : vrn(r, f->c->nkids)];
                size_t at = kid->name_off, l = kid->name_len;
                switch (vrn(r, 4)) { case 0: if (l) l -= 1 + vrn(r, (uint32_t)l); break; case 1: break; case 2: l += 1; break; default: l += 1 + vrn(r, 6); break; }
                if (at + l <= c.n) { np = c.buf + at; nl = l; variant |= 0x4000; }
            }
        }
        oph = oph * 1099511628211ULL + (uint64_t)op + nl * 131;
        if (!apply_op(&c, op, np, nl, variant)) goto out;
        if (c.trace.n > 6000) { memmove(c.trace.p, c.trace.p + 3000, c.trace.n - 3000); c.trace.n -= 3000; memcpy(c.trace.p, "...", 3); }
    }
    /* finish: leave everything, the last leave must succeed and leave no error */
    while (!c.m.done && !c.dead) {
        if (!apply_op(&c, OP_LEAVE, NULL, 0, 0)) goto out;
        steps++;
    }
    if (memcmp(c.buf, c.doc.p, c.n) != 0) report(&c, "walk:input-modified", "the input buffer was modified");
out:
    vw_count("calls", steps);
    vw_max("max_doc_bytes", c.n);
    if (steps >= 3 && vt_count(root) >= 2) vw_nontrivial(vh_hash(c.doc.p, c.n, oph));
    if (vw_want_sample() && steps >= 6 && c.n < 120 && c.trace.n < 400) {
        vbuf s; memset(&s, 0, sizeof s);
        vb_hex(&s, c.doc.p, c.n, 60); vb_printf(&s, " : %s", vb_cstr(&c.trace));
        vw_sample(vb_cstr(&s)); vb_free(&s);
    }
    ctx_close(&c);
}

/* --------------------------------------------------- explicit-state exploration -- */

/* explicit-state variant with hostile names: children get, by position, the bytewise ascending family
 * "" < "a" < "a\0" < "aa" < "b\xff" < "\x80" ; lookups then also ask for near misses of these */
static bool hostile_names;
static const struct { const char *s; size_t n; } HN[] = { { "", 0 }, { "a", 1 }, { "a\0", 2 }, { "aa", 2 }, { "b\xff", 2 }, { "\x80", 1 }, { "\xff", 1 } };
static const struct { const char *s; size_t n; } HABS[] = { { "a\0\0", 3 }, { "ab", 2 }, { "b", 1 }, { "\x7f", 1 }, { "\x80\x00", 2 }, { "\x00", 1 }, { "aa\x00", 3 } };
static void rename_hostile(vnode *n)
{
    for (uint32_t i = 0; i < n->nkids; i++) {
        if (n->kind == K_OBJ && i < 7) vt_setname(n->kids[i], (const uint8_t *)HN[i].s, (uint32_t)HN[i].n);
        rename_hostile(n->kids[i]);
    }
}
#define XF 10
typedef struct { vnode *root; int nf; bool started, done; uint16_t depth; vframe f[XF]; uint8_t mem[]; } xstate;
static void x_pack(xstate *x, const vcur *m) { x->root = m->root; x->nf = m->nf; x->started = m->started; x->done = m->done; memcpy(x->f, m->f, sizeof(vframe) * (size_t)(m->nf < XF ? m->nf : XF)); }
static void x_unpack(const xstate *x, vcur *m) { m->root = x->root; m->nf = x->nf; m->started = x->started; m->done = x->done; memcpy(m->f, x->f, sizeof(vframe) * (size_t)(x->nf < XF ? x->nf : XF)); }
static uint64_t *xs_seen; static size_t xs_cap, xs_cnt;
static bool xs_add(uint64_t h)
{
    if (!h) h = 1;
    if ((xs_cnt + 1) * 10 > xs_cap * 6) {
        size_t nc = xs_cap ? xs_cap * 2 : 1 << 12; uint64_t *ns = (uint64_t *)calloc(nc, 8);
        for (size_t i = 0; i < xs_cap; i++) if (xs_seen[i]) { size_t j = (size_t)(xs_seen[i] >> 7) & (nc - 1); while (ns[j]) j = (j + 1) & (nc - 1); ns[j] = xs_seen[i]; }
        free(xs_seen); xs_seen = ns; xs_cap = nc;
    }
    size_t j = (size_t)(h >> 7) & (xs_cap - 1);
    while (xs_seen[j]) { if (xs_seen[j] == h) return false; j = (j + 1) & (xs_cap - 1); }
    xs_seen[j] = h; xs_cnt++;
    return true;
}

static void explore_tree(const char *code, uint64_t caseno, char flavor, vrng *r)
{
    wctx c; memset(&c, 0, sizeof c);
    c.r = r; c.flavor = flavor;
    const char *s = code; int counter = 0;
    vnode *root = vt_from_code(&s, &counter);
    if (hostile_names) rename_hostile(root);
    ctx_open(&c, root, 0);
    size_t msz = sizeof(binson_parser) + sizeof(binson_state) * (size_t)c.max_depth;
    size_t ssz = sizeof(xstate) + msz;
    bool ok = (root->kind == K_OBJ) ? binson_parser_init_object(c.p, c.buf, c.n) : binson_parser_init_array(c.p, c.buf, c.n);
    if (!ok) { report(&c, "walk:init-rejected", "init rejected a valid document"); ctx_close(&c); return; }
    /* queue of product states */
    size_t qcap = 256, qn = 0, qh = 0;
    uint8_t *q = (uint8_t *)malloc(qcap * ssz);
    memset(xs_seen, 0, xs_cap * 8); xs_cnt = 0;
#define SNAP(dst) do { xstate *x_ = (xstate *)(dst); x_pack(x_, &c.m); memcpy(x_->mem, c.p, sizeof(binson_parser)); memcpy(x_->mem + sizeof(binson_parser), c.st, msz - sizeof(binson_parser)); } while (0)
#define RESTORE(src) do { const xstate *x_ = (const xstate *)(src); x_unpack(x_, &c.m); memcpy(c.p, x_->mem, sizeof(binson_parser)); memcpy(c.st, x_->mem + sizeof(binson_parser), msz - sizeof(binson_parser)); } while (0)
    SNAP(q); ((xstate *)q)->depth = 0; qn = 1;
    {
        uint64_t h = vc_hash(&c.m, 7); h = vh_hash(((xstate *)q)->mem, msz, h); xs_add(h);
    }
    uint64_t transitions = 0, maxdepth = 0;
    bool bad = false;
    uint8_t *curst = (uint8_t *)malloc(ssz);
    while (qh < qn && !bad) {
        memcpy(curst, q + qh * ssz, ssz); qh++;
        const xstate *X = (const xstate *)curst;
        if (X->done) continue;
        /* the alphabet at this state */
        struct { int op; uint8_t name[4]; size_t nl; int variant; } ops[64]; int nops = 0;
        vnode *cur = NULL;
        x_unpack(X, &c.m);
        cur = vc_current(&c.m);
        bool cont = cur && (cur->kind == K_OBJ || cur->kind == K_ARR);
        if (!X->started) { ops[nops++].op = OP_ENTER; }
        else {
            ops[nops].op = OP_NEXT; nops++;
            if (cont) { ops[nops].op = OP_ENTER; nops++; }
            ops[nops].op = OP_LEAVE; nops++;
            if (cur && flavor != '7') { ops[nops].op = OP_RAW; nops++; }
            if (cur && flavor == 'b') { ops[nops].op = OP_TOWRITER; ops[nops].variant = 1; nops++; if (cont && cur->len >= 2) { ops[nops].op = OP_RAW_SMALL; ops[nops].variant = 1; nops++; } }
            if (flavor == '7') { ops[nops].op = OP_NEXT_E; nops++; ops[nops].op = OP_NEXT_WRONG; nops++; }
            if (vc_in_object(&c.m)) {
                vnode *o = c.m.f[c.m.nf - 1].c;
                /* present names */
                for (uint32_t k = 0; k < o->nkids && nops < 34 && hostile_names; k++) {
                    size_t nl = o->kids[k]->name_len;
                    ops[nops].op = (k & 1) ? OP_FIELD_E : OP_FIELD; memcpy(ops[nops].name, o->kids[k]->name, nl); ops[nops].nl = nl; ops[nops].variant = (int)k; nops++;
                }
                for (uint32_t k = 0; k < 7 && hostile_names; k++) {
                    ops[nops].op = (k & 1) ? OP_FIELD : OP_FIELD_E; memcpy(ops[nops].name, HABS[k].s, HABS[k].n); ops[nops].nl = HABS[k].n; ops[nops].variant = (int)k; nops++;
                    if (k < o->nkids) continue;
                    /* names of the family that this object does not have are absent names too */
                    ops[nops].op = OP_FIELD; memcpy(ops[nops].name, HN[k].s, HN[k].n); ops[nops].nl = HN[k].n; ops[nops].variant = 0; nops++;
                }
                for (uint32_t k = 0; k < o->nkids && nops < 34 && !hostile_names; k++) {
                    ops[nops].op = OP_FIELD; memcpy(ops[nops].name, o->kids[k]->name, 2); ops[nops].nl = 2; ops[nops].variant = (int)k; nops++;
                    if (flavor == '7') {
                        ops[nops].op = OP_FIELD_E; memcpy(ops[nops].name, o->kids[k]->name, 2); ops[nops].nl = 2; ops[nops].variant = (int)k + 1; nops++;
                        ops[nops].op = OP_FIELD_WRONG; memcpy(ops[nops].name, o->kids[k]->name, 2); ops[nops].nl = 2; ops[nops].variant = (int)k; nops++;
                        /* proper prefix "b" (sorts just before "bx") and extension "bxy" (just after) */
                        ops[nops].op = OP_FIELD; ops[nops].name[0] = o->kids[k]->name[0]; ops[nops].nl = 1; ops[nops].variant = 0; nops++;
                        ops[nops].op = OP_FIELD_E; memcpy(ops[nops].name, o->kids[k]->name, 2); ops[nops].name[2] = 'y'; ops[nops].nl = 3; ops[nops].variant = 2; nops++;
                    }
                }
                if (flavor != '6' && !hostile_names) {
                    ops[nops].op = OP_FIELD; ops[nops].name[0] = 'a'; ops[nops].nl = 1; ops[nops].variant = 1; nops++;   /* before everything */
                    ops[nops].op = OP_FIELD; ops[nops].name[0] = 'z'; ops[nops].name[1] = 'z'; ops[nops].nl = 2; ops[nops].variant = 0; nops++; /* after everything */
                }
                if (flavor == '7' && !hostile_names) { ops[nops].op = OP_FIELD; ops[nops].nl = 0; ops[nops].variant = 0; nops++; }      /* the empty name */
            }
        }
        for (int k = 0; k < nops && !bad; k++) {
            RESTORE(curst);
            c.dead = false;
            vb_reset(&c.trace);
            vb_printf(&c.trace, "[state reached after %u calls] ", X->depth);
            transitions++;
            if (!apply_op(&c, ops[k].op, ops[k].name, ops[k].nl, ops[k].variant)) { bad = true; break; }
            if (c.dead) continue;                    /* provoked WRONG_TYPE: terminal by construction */
            uint64_t h = vc_hash(&c.m, 7);
            h = vh_hash(c.p, sizeof(binson_parser), h);
            h = vh_hash(c.st, msz - sizeof(binson_parser), h);
            if (xs_add(h)) {
                if (qn == qcap) { qcap *= 2; q = (uint8_t *)realloc(q, qcap * ssz); }
                SNAP(q + qn * ssz); ((xstate *)(q + qn * ssz))->depth = (uint16_t)(X->depth + 1);
                if ((uint64_t)X->depth + 1 > maxdepth) maxdepth = X->depth + 1;
                qn++;
            }
        }
    }
    if (bad) {
        /* the violation record only has the last call; add how to reach the state */
        vw_count("trees_with_mismatch", 1);
    }
    vw_count("trees", 1);
    vw_count("product_states", xs_cnt);
    vw_count("transitions", transitions);
    vw_max("max_bfs_depth", maxdepth);
    vw_max("max_states_per_tree", xs_cnt);
    vw_nontrivial(vh_hash(code, strlen(code), flavor));
    if (vw_want_sample() && strlen(code) >= 6) {
        vbuf sb; memset(&sb, 0, sizeof sb);
        vb_printf(&sb, "tree %s = ", code); vb_hex(&sb, c.doc.p, c.n, 40);
        vb_printf(&sb, " : %zu product states, %llu transitions, deepest state after %llu calls", xs_cnt, (unsigned long long)transitions, (unsigned long long)maxdepth);
        vw_sample(vb_cstr(&sb)); vb_free(&sb);
    }
    (void)caseno;
    free(curst); free(q);
    ctx_close(&c);
}

/* --------------------------------------------------------------------- C10 -- */
typedef struct { binson_parser *p; binson_writer *w; bool ok; int depth; unsigned empties; } tctx;
static void transcribe(tctx *t, bool in_obj)
{
    if (++t->depth > 6000) { fprintf(stderr, "HARNESS: transcriber recursion guard\n"); exit(2); }
    while (t->ok && binson_parser_next(t->p)) {
        if (in_obj) {
            bbuf *nm = binson_parser_get_name(t->p);
            if (!nm) { t->ok = false; break; }
            binson_write_name_with_len(t->w, (nm->bsize == 0 && (t->empties++ & 1)) ? NULL : (const char *)nm->bptr, nm->bsize);
        }
        switch (binson_parser_get_type(t->p)) {
        case BINSON_TYPE_OBJECT:
            t->ok = t->ok && binson_parser_go_into_object(t->p);
            binson_write_object_begin(t->w);
            transcribe(t, true);
            t->ok = t->ok && binson_parser_leave_object(t->p);
            binson_write_object_end(t->w);
            break;
        case BINSON_TYPE_ARRAY:
            t->ok = t->ok && binson_parser_go_into_array(t->p);
            binson_write_array_begin(t->w);
            transcribe(t, false);
            t->ok = t->ok && binson_parser_leave_array(t->p);
            binson_write_array_end(t->w);
            break;
        case BINSON_TYPE_BOOLEAN: binson_write_boolean(t->w, binson_parser_get_boolean(t->p)); break;
        case BINSON_TYPE_INTEGER: binson_write_integer(t->w, binson_parser_get_integer(t->p)); break;
        case BINSON_TYPE_DOUBLE: binson_write_double(t->w, binson_parser_get_double(t->p)); break;
        /* an empty value is handed over as (NULL, 0) every other time: a decoder that copies values has no pointer for it */
        case BINSON_TYPE_STRING: { bbuf *s = binson_parser_get_string_bbuf(t->p); if (!s) { t->ok = false; break; } binson_write_string_with_len(t->w, (s->bsize == 0 && (t->empties++ & 1)) ? NULL : (const char *)s->bptr, s->bsize); break; }
        case BINSON_TYPE_BYTES: { bbuf *s = binson_parser_get_bytes_bbuf(t->p); if (!s) { t->ok = false; break; } binson_write_bytes(t->w, (s->bsize == 0 && (t->empties++ & 1)) ? NULL : s->bptr, s->bsize); break; }
        default: t->ok = false; break;
        }
    }
    t->depth--;
}
static void case_c10(vrng *r, uint64_t caseno)
{
    wctx c; memset(&c, 0, sizeof c);
    c.r = r; c.flavor = 'a';
    vnode *root;
    if (vncorpus && caseno < vncorpus && vcorpus[caseno].valid && vrecognise(vcorpus[caseno].p, vcorpus[caseno].n, K_OBJ, 255).ok) { root = vt_decode(vcorpus[caseno].p, vcorpus[caseno].n, K_OBJ); vw_count("corpus_documents", 1); }
    else {
        do { root = random_tree(r, 'a'); } while (root->kind != K_OBJ);
    }
    ctx_open(&c, root, (int)vrn(r, 3));
    uint8_t *dst = vg_exact(c.n);
    memset(dst, 0xEE, c.n);
    binson_writer w;
    binson_writer_init(&w, dst, c.n);
    tctx t = { c.p, &w, true, 0, (unsigned)vrn(r, 2) };
    t.ok = binson_parser_init_object(c.p, c.buf, c.n);
    if (t.ok) MAYBE_CB(c, r);
    if (t.ok && vrn(r, 3) == 0) t.ok = prior_history(&c, r);       /* abandoned partial walk + reset/verify first */
    t.ok = t.ok && binson_parser_go_into_object(c.p);
    binson_write_object_begin(&w);
    if (t.ok) transcribe(&t, true);
    t.ok = t.ok && binson_parser_leave_object(c.p);
    binson_write_object_end(&w);
    vb_printf(&c.trace, "transcription with next/go_into/leave + matching binson_write_* calls");
    if (!t.ok || c.p->error_flags != BINSON_ERROR_NONE) {
        char what[200]; snprintf(what, sizeof what, "the traversal of a valid document failed (parser error_flags=%s)", verr_name((int)c.p->error_flags));
        report(&c, "c10:traversal-failed", what);
    } else if (w.error_flags != BINSON_ERROR_NONE || binson_writer_get_counter(&w) != c.n) {
        char what[200]; snprintf(what, sizeof what, "re-encoding produced %zu bytes (writer error %s), the input has %zu", binson_writer_get_counter(&w), verr_name((int)w.error_flags), c.n);
        report(&c, "c10:size-differs", what);
    } else if (memcmp(dst, c.buf, c.n) != 0) {
        size_t at = 0; while (dst[at] == c.buf[at]) at++;
        char what[200]; snprintf(what, sizeof what, "re-encoded bytes differ from the input at offset %zu (0x%02x vs 0x%02x)", at, dst[at], c.buf[at]);
        report(&c, "c10:bytes-differ", what);
    }
    vw_count("bytes_transcribed", c.n);
    vw_max("max_doc_bytes", c.n);
    if (vt_count(root) >= 2) vw_nontrivial(vh_hash(c.doc.p, c.n, 10));
    if (vw_want_sample() && c.n > 8 && c.n < 100) {
        vbuf s; memset(&s, 0, sizeof s);
        vb_hex(&s, c.doc.p, c.n, 60); vb_printf(&s, " : %u values re-encoded to identical %zu bytes", vt_count(root) - 1, c.n);
        vw_sample(vb_cstr(&s)); vb_free(&s);
    }
    vg_free(dst, c.n);
    ctx_close(&c);
}

int main(int argc, char **argv)
{
    vw_init(argc, argv);
    const char *m = VA.mode;
    vrng r;
    if (!strcmp(m, "c03") || !strcmp(m, "c10")) vcorpus_load(VA.repo);
    if (m[3] == 'x') {
        int maxn = atoi(VA.opt); if (maxn < 2) maxn = 5; if (maxn > 7) maxn = 7;
        vt_enum_build(maxn, strstr(VA.opt, "noscalarstr") ? "i" : "is");
        hostile_names = strstr(VA.opt, "hostile") != NULL;
        xs_cap = 1 << 12; xs_seen = (uint64_t *)calloc(xs_cap, 8);
        /* container-rooted trees only, dealt round-robin to the workers */
        uint64_t idx = 0;
        char flavor = m[2] == '6' ? '6' : (m[2] == '7' ? '7' : 'b');
        for (int n = 1; n <= maxn && !vw_stop(); n++)
            for (size_t i = 0; i < vt_enum[n].n && !vw_stop(); i++) {
                const char *code = vt_enum[n].v[i];
                if (code[0] != 'O' && code[0] != 'A') continue;
                uint64_t my = idx++;
                if (my % VA.nworkers != VA.wid) continue;
                uint64_t caseno = my / VA.nworkers;
                if (caseno < VA.start) continue;
                if (VA.onecase >= 0 && caseno != (uint64_t)VA.onecase) continue;
                vw_case(caseno);
                vr_seed(&r, VA.seed, VA.wid, caseno);
                va_reset();
                explore_tree(code, caseno, flavor, &r);
            }
        return vw_finish();
    }
    for (uint64_t k = VA.start; k < VA.start + VA.cases && !vw_stop(); k++) {
        vw_case(k);
        vr_seed(&r, VA.seed, VA.wid, k);
        va_reset();
        if (!strcmp(m, "c03")) case_c03(&r, k * VA.nworkers + VA.wid);
        else if (!strcmp(m, "c10")) case_c10(&r, k * VA.nworkers + VA.wid);
        else if (!strcmp(m, "c06r")) case_walk(&r, k, '6');
        else if (!strcmp(m, "c07r")) case_walk(&r, k, '7');
        else if (!strcmp(m, "c11r")) { if (k % 16 == 5) inplace_case(&r); else case_walk(&r, k, 'b'); }
        else { fprintf(stderr, "HARNESS: unknown mode %s\n", m); return 2; }
    }
    return vw_finish();
}
