/* w_writer.c — the writer.
 *   c04  : arbitrary write-call lists x every capacity: piece model (no store past capacity, exact counter,
 *          RANGE iff too small, stored prefix, per-call return values)
 *   c09w : the same lists with emphasis on what happens after the first failing write (latching)
 *   c12w : init / reset after arbitrary prior use give a clean writer
 *   c05i : integer sweeps (opt: bits=N boundary sweep | all32), c05d doubles, c05s string/bytes lengths,
 *          c05t : well-formed sequences from trees: canonical bytes, verify, decode back
 */
#define _GNU_SOURCE
#include "vh.h"

enum { W_OBJ_BEGIN = 0, W_OBJ_END, W_ARR_BEGIN, W_ARR_END, W_BOOL, W_INT, W_DOUBLE, W_STRING, W_STRING_LEN, W_NAME, W_NAME_LEN, W_BYTES, W_RAW, W_RAW_NULL, W_PTW_SCALAR, W_PTW_CONT, W_QUERY, W_RAW_HUGE, W_BYTES_HUGE, W_NOPS };
static const char *WNAME[] = { "object_begin", "object_end", "array_begin", "array_end", "boolean", "integer", "double", "string", "string_with_len", "name", "name_with_len", "bytes", "raw", "raw(NULL)", "parser_to_writer(on a scalar)", "parser_to_writer(on a container)", "writer_verify+get_counter(query)", "raw(length near SIZE_MAX)", "bytes/string(length above INT32_MAX)" };

typedef struct {
    int op; bool b; int64_t i; uint64_t dbits;
    uint8_t *data; size_t len;        /* exact-size block (len+1 with NUL for the strlen variants) */
    size_t piece[2]; int npieces;     /* sizes of the pieces this call hands to the buffer */
    size_t enc_off;                   /* offset of this call's bytes in the full encoding */
} wcall;

/* {"a":{"c":2},"b":7} : a parser positioned on the container "a" or on the scalar "b" feeds binson_parser_to_writer */
static const uint8_t PTW_DOC[] = { 0x40, 0x14, 0x01, 'a', 0x40, 0x14, 0x01, 'c', 0x10, 0x02, 0x41, 0x14, 0x01, 'b', 0x10, 0x07, 0x41 };
static bool ptw_exec(binson_writer *w, bool container)
{
    binson_state st[3]; binson_parser p;
    memset(&p, 0, sizeof p); memset(st, 0, sizeof st);
    p.state = st; p.max_depth = 3;
    if (!(binson_parser_init_object(&p, PTW_DOC, sizeof PTW_DOC) && binson_parser_go_into_object(&p) && binson_parser_field(&p, container ? "a" : "b"))) { fprintf(stderr, "HARNESS: ptw setup\n"); exit(2); }
    return binson_parser_to_writer(&p, w);
}
static void call_free(wcall *c) { if (c->data) vg_free(c->data, (c->op == W_STRING || c->op == W_NAME) ? c->len + 1 : c->len); c->data = NULL; }

static void call_model(wcall *c, vbuf *full)
{
    c->enc_off = full->n;
    size_t before = full->n;
    c->npieces = 1;
    switch (c->op) {
    case W_OBJ_BEGIN: vb_u8(full, 0x40); break;
    case W_OBJ_END: vb_u8(full, 0x41); break;
    case W_ARR_BEGIN: vb_u8(full, 0x42); break;
    case W_ARR_END: vb_u8(full, 0x43); break;
    case W_BOOL: vb_u8(full, c->b ? 0x44 : 0x45); break;
    case W_INT: ve_int(full, 0x10, c->i); break;
    case W_DOUBLE: ve_double(full, c->dbits); break;
    case W_STRING: case W_STRING_LEN: case W_NAME: case W_NAME_LEN: case W_BYTES: {
        ve_int(full, c->op == W_BYTES ? 0x18 : 0x14, (int64_t)c->len);
        c->piece[0] = full->n - before;
        vb_put(full, c->data, c->len);
        if (c->len) { c->piece[1] = c->len; c->npieces = 2; }
        return;
    }
    case W_RAW: vb_put(full, c->data, c->len); break;
    case W_RAW_NULL: c->npieces = 0; return;
    case W_PTW_SCALAR: c->npieces = 0; return;                       /* returns false and changes nothing */
    case W_QUERY: c->npieces = 0; return;                            /* queries change nothing */
    case W_RAW_HUGE: case W_BYTES_HUGE: c->npieces = 0; return;      /* terminal: must fail without storing or reading anything */
    case W_PTW_CONT: vb_put(full, PTW_DOC + 4, 7); break;            /* appends exactly the container's bytes */
    }
    c->piece[0] = full->n - before;
}

static bool call_exec(binson_writer *w, const wcall *c)
{
    double d;
    switch (c->op) {
    case W_OBJ_BEGIN: return binson_write_object_begin(w);
    case W_OBJ_END: return binson_write_object_end(w);
    case W_ARR_BEGIN: return binson_write_array_begin(w);
    case W_ARR_END: return binson_write_array_end(w);
    case W_BOOL: return binson_write_boolean(w, c->b);
    case W_INT: return binson_write_integer(w, c->i);
    case W_DOUBLE: memcpy(&d, &c->dbits, 8); return binson_write_double(w, d);
    case W_STRING: return binson_write_string(w, (const char *)c->data);
    case W_STRING_LEN: return binson_write_string_with_len(w, (const char *)c->data, c->len);
    case W_NAME: return binson_write_name(w, (const char *)c->data);
    case W_NAME_LEN: return binson_write_name_with_len(w, (const char *)c->data, c->len);
    case W_BYTES: return binson_write_bytes(w, c->data, c->len);
    case W_RAW: return binson_write_raw(w, c->data, c->len);
    case W_RAW_NULL: return binson_write_raw(w, NULL, c->len);
    case W_PTW_SCALAR: return ptw_exec(w, false);
    case W_PTW_CONT: return ptw_exec(w, true);
    case W_QUERY: return false;                                      /* executed by run_list, which knows whether the backing store is large enough */
    }
    return false;
}

static void describe_calls(const wcall *calls, int n, vbuf *o)
{
    for (int i = 0; i < n; i++) {
        const wcall *c = &calls[i];
        vb_printf(o, "%s", WNAME[c->op]);
        if (c->op == W_INT) vb_printf(o, "(%lld)", (long long)c->i);
        else if (c->op == W_DOUBLE) vb_printf(o, "(bits %016llx)", (unsigned long long)c->dbits);
        else if (c->op == W_BOOL) vb_printf(o, "(%d)", c->b);
        else if (c->op >= W_STRING && c->op <= W_RAW_NULL) { vb_printf(o, "(%zu bytes:", c->len); if (c->data) vb_hex(o, c->data, c->len, 8); vb_printf(o, ")"); }
        vb_u8(o, ' ');
    }
}

static void random_call(vrng *r, wcall *c, bool allow_null, bool allow_big)
{
    memset(c, 0, sizeof *c);
    static const uint8_t w[W_NOPS] = { 8, 8, 6, 6, 5, 14, 5, 6, 8, 5, 6, 10, 6, 0, 3, 4, 3, 0, 0 };
    uint32_t sum = 0; for (int i = 0; i < W_NOPS; i++) sum += w[i];
    uint32_t x = vrn(r, sum); int op = 0; while (x >= w[op]) { x -= w[op]; op++; }
    if (allow_null && vrn(r, 25) == 0) op = W_RAW_NULL;
    c->op = op;
    c->b = vrn(r, 2); c->i = vt_rand_int(r); c->dbits = vt_rand_dbits(r);
    if (op >= W_STRING && op <= W_RAW_NULL) {
        vgen g; vg_default(&g, K_OBJ);
        g.big_permille = 80; g.huge_permille = allow_big ? 6 : 0;
        size_t len = vt_rand_len(r, &g);
        if (op == W_RAW_NULL) { c->len = len; return; }
        bool cstr = (op == W_STRING || op == W_NAME);
        c->len = len;
        if (len == 0 && !cstr && op != W_RAW && vrn(r, 2)) { c->data = NULL; return; }     /* (NULL, 0): an empty value as std::vector::data() hands it over */
        c->data = vg_exact(cstr ? len + 1 : len);
        for (size_t i = 0; i < len; i++) { uint8_t v = (uint8_t)vr64(r); if (cstr && v == 0) v = 0x80; c->data[i] = v; }
        if (cstr) c->data[len] = 0;
    }
}

/* Runs the list into a destination of exactly `cap` bytes and compares with the piece model. */
typedef struct { const char *sigp; uint64_t checks; } rctx;
static bool run_list(wcall *calls, int n, const vbuf *full, size_t cap, int form, binson_writer *w, uint8_t *given_dst, const char *sigp, size_t pre_used)
{
    (void)pre_used;
    if (VA.verbose >= 2) fprintf(stderr, "  run at capacity %zu (%s destination)\n", cap, (form == 1 || cap == 0) ? "canary-tailed" : "exact-size");
    uint8_t *dst; bool canary = (form == 1 || cap == 0);
    /* canary form: the backing store reaches past the whole encoding, so that binson_writer_verify on an overflowed writer
     * (which parses `counter` bytes) stays inside memory the harness owns; everything past `cap` must keep its pattern */
    size_t tail = 64 + (full->n > cap ? full->n - cap : 0);
    if (given_dst) dst = given_dst;
    else if (canary) { dst = (uint8_t *)malloc(cap + tail); memset(dst + cap, 0xEE, tail); }
    else dst = vg_exact(cap);
    memset(dst, 0xA7, cap);
    bool ok = true;
    char what[500]; char sig[160]; what[0] = 0;
    if (!given_dst) {
        memset(w, 0xD1, sizeof *w);
        if (!binson_writer_init(w, dst, cap) || w->error_flags != BINSON_ERROR_NONE || binson_writer_get_counter(w) != 0) {
            snprintf(sig, sizeof sig, "%s:init", sigp); snprintf(what, sizeof what, "binson_writer_init did not give a clean writer"); ok = false;
        }
    }
    bool failed = false, nullerr = false, terminal = false, over_after_null = false; size_t stored = 0, counter = 0;
    for (int i = 0; i < n && ok; i++) {
        wcall *c = &calls[i];
        if (c->op == W_RAW_NULL) { failed = true; nullerr = true; over_after_null = false; }     /* the refused call sets NULL again */
        for (int k = 0; k < c->npieces; k++) {
            if (!failed && stored + c->piece[k] <= cap && stored + c->piece[k] >= stored) stored += c->piece[k];
            else failed = true;
            counter += c->piece[k];
            if (nullerr && counter > cap) over_after_null = true;      /* a piece that ends beyond the capacity, written after the refused NULL call */
        }
        if (c->op == W_QUERY) {
            /* queries between writes: nothing may change (writer_verify only where the backing store covers the counter) */
            size_t c0 = binson_writer_get_counter(w); binson_err e0 = w->error_flags;
            if (canary && !given_dst) (void)binson_writer_verify(w);
            (void)binson_writer_get_counter(w);
            if (binson_writer_get_counter(w) != c0 || w->error_flags != e0) { snprintf(sig, sizeof sig, "%s:query-changed-writer", sigp); snprintf(what, sizeof what, "binson_writer_verify/get_counter changed the writer: counter %zu -> %zu, error %s -> %s", c0, binson_writer_get_counter(w), verr_name((int)e0), verr_name((int)w->error_flags)); ok = false; }
            continue;
        }
        if (c->op == W_RAW_HUGE || c->op == W_BYTES_HUGE) {
            /* a length the data cannot have: counter + length wraps size_t (raw), or exceeds INT32_MAX (string/bytes).
             * The call must fail, set an error and neither store nor read anything (the source block has 1 byte). */
            uint8_t *one = vg_exact(1); one[0] = 0x5A;
            size_t huge = c->op == W_RAW_HUGE ? (size_t)0 - (size_t)(1 + c->i % 7) : (size_t)INT32_MAX + 1 + (size_t)(c->i % 1000);
            bool r2 = c->op == W_RAW_HUGE ? binson_write_raw(w, one, huge) : ((c->i & 1) ? binson_write_bytes(w, one, huge) : binson_write_string_with_len(w, (const char *)one, huge));
            vg_free(one, 1);
            size_t cnt_now = binson_writer_get_counter(w);
            size_t cnt_want = counter + huge + (c->op == W_BYTES_HUGE ? 9 : 0);      /* the counter keeps counting: 9-byte length prefix + the claimed payload */
            if (ok && cnt_now != cnt_want) { snprintf(sig, sizeof sig, "%s:counter:%s", sigp, WNAME[c->op]); snprintf(what, sizeof what, "call %d (%s, length %zu): the counter went from %zu to %zu, the encoded size of the call is %zu", i, WNAME[c->op], huge, counter, cnt_now, cnt_want - counter); ok = false; }
            if (r2 || w->error_flags == BINSON_ERROR_NONE) { snprintf(sig, sizeof sig, "%s:huge-length-accepted:%s", sigp, WNAME[c->op]); snprintf(what, sizeof what, "call %d (%s, length %zu) returned %d with error_flags=%s", i, WNAME[c->op], huge, r2, verr_name((int)w->error_flags)); ok = false; }
            /* RANGE iff the size exceeds the capacity: the claimed size of a string/bytes value above INT32_MAX exceeds every capacity
             * used here, whatever other error the call raised first (raw lengths near SIZE_MAX wrap the counter: any error will do) */
            if (ok && c->op == W_BYTES_HUGE && w->error_flags != BINSON_ERROR_RANGE) { snprintf(sig, sizeof sig, "%s:range-iff:%s", sigp, WNAME[c->op]); snprintf(what, sizeof what, "call %d (%s, length %zu): the counter is %zu, the capacity %zu, but error_flags=%s, not RANGE", i, WNAME[c->op], huge, cnt_now, cap, verr_name((int)w->error_flags)); ok = false; }
            if (ok && stored && memcmp(dst, full->p, stored) != 0) { snprintf(sig, sizeof sig, "%s:prefix-damaged", sigp); snprintf(what, sizeof what, "the stored prefix was damaged by a write with an impossible length"); ok = false; }
            for (size_t k = stored; ok && k < cap; k++) if (dst[k] != 0xA7) { snprintf(sig, sizeof sig, "%s:store-after-failure", sigp); snprintf(what, sizeof what, "byte %zu was modified by a write with an impossible length", k); ok = false; }
            terminal = true;
            break;
        }
        bool ret = call_exec(w, c);
        size_t cnt = binson_writer_get_counter(w);
        bool expect_ret = !failed && c->op != W_PTW_SCALAR;
        if (ret != expect_ret) { snprintf(sig, sizeof sig, "%s:ret:%s:got-%d", sigp, WNAME[c->op], ret); snprintf(what, sizeof what, "call %d (%s) returned %s, the piece model expects %s", i, WNAME[c->op], ret ? "true" : "false", expect_ret ? "true" : "false"); ok = false; }
        else if (cnt != counter) { snprintf(sig, sizeof sig, "%s:counter:%s", sigp, WNAME[c->op]); snprintf(what, sizeof what, "after call %d (%s) the counter is %zu, the exact encoded size so far is %zu", i, WNAME[c->op], cnt, counter); ok = false; }
        else if (!failed && w->error_flags != BINSON_ERROR_NONE) { snprintf(sig, sizeof sig, "%s:spurious-error:%s", sigp, verr_name((int)w->error_flags)); snprintf(what, sizeof what, "error_flags=%s although everything fitted", verr_name((int)w->error_flags)); ok = false; }
        else if (failed && w->error_flags == BINSON_ERROR_NONE) { snprintf(sig, sizeof sig, "%s:error-cleared", sigp); snprintf(what, sizeof what, "after the failing call %d the error indicator is NONE", i); ok = false; }
        else if (over_after_null && w->error_flags != BINSON_ERROR_RANGE) { snprintf(sig, sizeof sig, "%s:range-iff:after-%s", sigp, verr_name((int)w->error_flags)); snprintf(what, sizeof what, "after call %d the size so far (%zu) exceeds the capacity (%zu) through a piece written after the refused NULL call, but error_flags=%s, not RANGE", i, counter, cap, verr_name((int)w->error_flags)); ok = false; }
        else if (failed && !nullerr && w->error_flags != BINSON_ERROR_RANGE) { snprintf(sig, sizeof sig, "%s:wrong-error:%s", sigp, verr_name((int)w->error_flags)); snprintf(what, sizeof what, "capacity exceeded but error_flags=%s, expected RANGE", verr_name((int)w->error_flags)); ok = false; }
        if (ok && failed) {
            /* frozen: the stored prefix and the untouched remainder are compared after every later call */
            if (stored && memcmp(dst, full->p, stored) != 0) { snprintf(sig, sizeof sig, "%s:prefix-damaged", sigp); snprintf(what, sizeof what, "after call %d the first %zu bytes no longer equal the prefix of the encoding", i, stored); ok = false; }
            for (size_t k = stored; ok && k < cap; k++) if (dst[k] != 0xA7) { snprintf(sig, sizeof sig, "%s:store-after-failure", sigp); snprintf(what, sizeof what, "byte %zu (>= stored prefix %zu) was modified by call %d (%s) after/at the failing piece", k, stored, i, WNAME[c->op]); ok = false; }
        }
    }
    if (ok && !terminal) {
        if (stored && memcmp(dst, full->p, stored) != 0) { snprintf(sig, sizeof sig, "%s:bytes", sigp); size_t at = 0; while (dst[at] == full->p[at]) at++; snprintf(what, sizeof what, "stored bytes differ from the encoding at offset %zu (0x%02x, expected 0x%02x)", at, dst[at], full->p[at]); ok = false; }
        for (size_t k = stored; ok && k < cap; k++) if (dst[k] != 0xA7) { snprintf(sig, sizeof sig, "%s:store-beyond-prefix", sigp); snprintf(what, sizeof what, "byte %zu beyond the stored prefix (%zu) was modified", k, stored); ok = false; }
        if (ok && (counter > cap) != (w->error_flags == BINSON_ERROR_RANGE) && !nullerr) { snprintf(sig, sizeof sig, "%s:range-iff", sigp); snprintf(what, sizeof what, "total %zu, capacity %zu, error_flags=%s", counter, cap, verr_name((int)w->error_flags)); ok = false; }
    }
    if (ok && !given_dst && !terminal) {
        /* reset is a writer call too: it must not store outside the first `cap` bytes either */
        (void)binson_writer_reset(w);
        if (cap >= 2 && (binson_writer_get_counter(w) != 0 || w->error_flags != BINSON_ERROR_NONE)) { snprintf(sig, sizeof sig, "%s:reset-not-clean", sigp); snprintf(what, sizeof what, "after binson_writer_reset the counter is %zu and error_flags=%s", binson_writer_get_counter(w), verr_name((int)w->error_flags)); ok = false; }
    }
    if (canary && !given_dst) for (size_t k = 0; k < tail; k++) if (dst[cap + k] != 0xEE) { snprintf(sig, sizeof sig, "%s:overrun", sigp); snprintf(what, sizeof what, "byte %zu past the capacity %zu was overwritten", k, cap); ok = false; break; }
    if (!ok) {
        vbuf d; memset(&d, 0, sizeof d);
        vb_printf(&d, "%s\ncapacity=%zu exact encoded size=%zu\ncalls: ", what, cap, full->n);
        describe_calls(calls, n, &d);
        vw_violation(sig, "%s", vb_cstr(&d));
        vb_free(&d);
    }
    if (!given_dst) { if (canary) free(dst); else vg_free(dst, cap); }
    return ok;
}

static void case_lists(vrng *r, bool c09)
{
    wcall calls[24]; int n = 1 + (int)vrn(r, c09 ? 20 : 14);
    vbuf full; memset(&full, 0, sizeof full);
    bool big = vrn(r, 40) == 0;
    for (int i = 0; i < n; i++) { random_call(r, &calls[i], true, big); call_model(&calls[i], &full); }
    if (vrn(r, 12) == 0) { wcall *l = &calls[n - 1]; call_free(l); full.n = l->enc_off; memset(l, 0, sizeof *l); l->op = vrn(r, 2) ? W_RAW_HUGE : W_BYTES_HUGE; l->i = (int64_t)vrn(r, 100000); call_model(l, &full); vw_count("lists_ending_with_impossible_length", 1); }
    size_t T = full.n;
    if (VA.verbose) { vbuf d; memset(&d, 0, sizeof d); describe_calls(calls, n, &d); fprintf(stderr, "case: %d write calls, exact encoded size %zu: %s\n", n, T, vb_cstr(&d)); vb_free(&d); }
    binson_writer *w = (binson_writer *)malloc(sizeof(binson_writer));
    uint64_t runs = 0;
    bool ok = true;
    if (T <= 2500) {
        for (size_t cap = 0; cap <= T + 2 && ok; cap++) { ok = run_list(calls, n, &full, cap, (int)((cap + VA.seed) & 1), w, NULL, c09 ? "c09w" : "c04", 0); runs++; }
    } else {
        /* stratified: every capacity near both ends and around every piece boundary, a stride elsewhere */
        size_t stride = 61 + vrn(r, 40);
        size_t bound[64]; int nb = 0; size_t acc = 0;
        for (int i = 0; i < n; i++) for (int k = 0; k < calls[i].npieces && nb < 64; k++) { acc += calls[i].piece[k]; bound[nb++] = acc; }
        for (size_t cap = 0; cap <= T + 2 && ok; cap++) {
            bool take = cap < 300 || cap + 300 >= T || cap % stride == 0;
            for (int b = 0; b < nb && !take; b++) if (cap + 2 >= bound[b] && cap <= bound[b] + 2) take = true;
            if (!take) continue;
            ok = run_list(calls, n, &full, cap, (int)(cap & 1), w, NULL, c09 ? "c09w" : "c04", 0); runs++;
        }
    }
    if (c09 && ok) {
        /* a writer whose init was refused (NULL buffer): every write fails, nothing is stored anywhere, the counter still counts */
        memset(w, 0xD1, sizeof *w);
        bool ir = binson_writer_init(w, NULL, T + 5);
        size_t counter = 0; bool bad = ir || w->error_flags == BINSON_ERROR_NONE;
        for (int i = 0; i < n && !bad; i++) {
            if (calls[i].op >= W_QUERY) continue;
            bool r2 = call_exec(w, &calls[i]);
            for (int k = 0; k < calls[i].npieces; k++) counter += calls[i].piece[k];
            if (r2 || w->error_flags == BINSON_ERROR_NONE || binson_writer_get_counter(w) != counter) {
                vbuf d; memset(&d, 0, sizeof d);
                vb_printf(&d, "writer initialised with a NULL buffer: call %d (%s) returned %d, error_flags=%s, counter %zu (exact size so far %zu)\ncalls: ", i, WNAME[calls[i].op], r2, verr_name((int)w->error_flags), binson_writer_get_counter(w), counter);
                describe_calls(calls, n, &d);
                vw_violation(r2 ? "c09w:null-buffer:write-succeeds" : (w->error_flags == BINSON_ERROR_NONE ? "c09w:null-buffer:error-cleared" : "c09w:null-buffer:counter"), "%s", vb_cstr(&d)); vb_free(&d);
                bad = true;
            }
        }
        if (ir) vw_violation("c09w:null-buffer:init-true", "binson_writer_init(w, NULL, n) returned true");
        vw_count("null_buffer_writer_runs", 1);
    }
    vw_count("capacity_runs", runs);
    vw_count("write_calls", runs * (uint64_t)n);
    vw_max("max_encoded_size", T);
    { vbuf d; memset(&d, 0, sizeof d); describe_calls(calls, n, &d);
      if (T >= 2) vw_nontrivial(vh_hash(d.p, d.n, T));
      if (vw_want_sample() && d.n < 300 && n >= 3) { vb_printf(&d, ": encoded size %zu, run at every capacity 0..%zu", T, T + 2); vw_sample(vb_cstr(&d)); }
      vb_free(&d); }
    free(w);
    for (int i = 0; i < n; i++) call_free(&calls[i]);
    vb_free(&full);
}

/* ------------------------------------------------------------------- C12 writer -- */
static void case_c12w(vrng *r)
{
    wcall a[12], b[12]; int na = (int)vrn(r, 12), nbb = 1 + (int)vrn(r, 10);
    vbuf fa, fb; memset(&fa, 0, sizeof fa); memset(&fb, 0, sizeof fb);
    for (int i = 0; i < na; i++) { random_call(r, &a[i], true, false); call_model(&a[i], &fa); }
    for (int i = 0; i < nbb; i++) { random_call(r, &b[i], false, false); call_model(&b[i], &fb); }
    size_t capA = vrn(r, 3) ? vrn(r, (uint32_t)fa.n + 3) : fa.n + vrn(r, 8);
    size_t capB = vrn(r, 4) ? fb.n + vrn(r, 4) : vrn(r, (uint32_t)fb.n + 1);
    binson_writer *w = (binson_writer *)malloc(sizeof(binson_writer));
    memset(w, 0x77, sizeof *w);
    uint8_t *dA = (uint8_t *)malloc(capA + 64), *dB = (uint8_t *)malloc(capB + 64);
    memset(dA, 0xA7, capA); memset(dA + capA, 0xEE, 64); memset(dB, 0xEE, capB + 64);
    binson_writer_init(w, dA, capA);
    for (int i = 0; i < na; i++) call_exec(w, &a[i]);       /* phase A: arbitrary use, possibly failed */
    binson_err errA = w->error_flags; size_t cntA = binson_writer_get_counter(w);
    uint32_t how = vrn(r, 3);
    bool clean = true; const char *hown;
    uint8_t *dst = dB; size_t cap = capB;
    uint32_t nullinit = vrn(r, 6);
    if (nullinit == 0) {
        /* a REJECTED init (NULL buffer) in between: the used writer must answer like a fresh struct given the same rejected init,
           and nothing of the previous use (buffer, counter) may still be reachable through it */
        binson_writer *f = (binson_writer *)malloc(sizeof(binson_writer));
        memset(f, 0x77, sizeof *f);
        size_t nsz = 1 + vrn(r, 64);
        uint8_t snap[8]; size_t sn = capA < 8 ? capA : 8; memcpy(snap, dA, sn);
        bool iu = binson_writer_init(w, NULL, nsz), ifr = binson_writer_init(f, NULL, nsz);
        size_t cu = binson_writer_get_counter(w), cf = binson_writer_get_counter(f);
        binson_err eu = w->error_flags, ef = f->error_flags;
        bool wu = binson_write_boolean(w, true), wf = binson_write_boolean(f, true);
        size_t cu2 = binson_writer_get_counter(w), cf2 = binson_writer_get_counter(f);
        bool ru = binson_writer_reset(w), rf = binson_writer_reset(f);
        bool touched = memcmp(snap, dA, sn) != 0;
        if (iu != ifr || cu != cf || eu != ef || wu != wf || cu2 != cf2 || ru != rf || touched)
            vw_violation("c12w:not-clean:rejected-init", "after binson_writer_init(w, NULL, %zu) a used writer (counter %zu, error %s before) answers init=%d counter=%zu error=%s write=%d counter=%zu reset=%d%s; a fresh struct answers init=%d counter=%zu error=%s write=%d counter=%zu reset=%d",
                         nsz, cntA, verr_name((int)errA), iu, cu, verr_name((int)eu), wu, cu2, ru, touched ? " and the buffer of the previous use was modified" : "", ifr, cf, verr_name((int)ef), wf, cf2, rf);
        vw_count("reuse_after_rejected_init", 1);
        free(f);
        if (how == 2) how = 1;      /* no buffer to reset any more: restart through init on the same buffer */
    }
    if (how == 0) { hown = "init"; if (!binson_writer_init(w, dB, capB)) { vw_violation("c12w:init-failed", "binson_writer_init returned false on a valid buffer"); clean = false; } }
    else if (how == 1) { hown = "init(same buffer)"; dst = dA; cap = capA; if (!binson_writer_init(w, dA, capA)) { vw_violation("c12w:init-failed", "binson_writer_init returned false on a valid buffer"); clean = false; } }
    else {
        hown = "reset"; dst = dA; cap = capA;
        bool rr = binson_writer_reset(w);
        if (capA < 2) { if (rr) vw_violation("c12w:reset-small", "binson_writer_reset returned true on a capacity below 2"); clean = false; vw_count("reset_refused_small", 1); }
        else if (!rr) { vw_violation("c12w:reset-failed", "binson_writer_reset returned false on a writer with a valid buffer of capacity >= 2"); clean = false; }
    }
    for (int k = 0; k < 64; k++) if (dA[capA + (size_t)k] != 0xEE) { vw_violation("c12w:overrun-by-restart", "bytes past the capacity %zu were modified by the previous use or by %s", capA, hown); clean = false; break; }
    if (clean) {
        if (binson_writer_get_counter(w) != 0 || w->error_flags != BINSON_ERROR_NONE) {
            char sig[100], what[300];
            snprintf(sig, sizeof sig, "c12w:not-clean:%s", hown);
            snprintf(what, sizeof what, "after %s the counter is %zu and error_flags=%s (before: counter %zu, error %s)", hown, binson_writer_get_counter(w), verr_name((int)w->error_flags), cntA, verr_name((int)errA));
            vw_violation(sig, "%s", what);
        } else {
            char sigp[40]; snprintf(sigp, sizeof sigp, "c12w:%s", how == 2 ? "reset" : "init");
            /* phase B must behave exactly like a fresh writer = the piece model */
            memset(dst + cap, 0xEE, 64);
            run_list(b, nbb, &fb, cap, 1, w, dst, sigp, 0);
            for (int k = 0; k < 64; k++) if (dst[cap + (size_t)k] != 0xEE) { vw_violation("c12w:overrun", "store past the capacity after re-initialisation"); break; }
            vw_count(how == 2 ? "reuse_after_reset" : "reuse_after_init", 1);
            if (errA != BINSON_ERROR_NONE) vw_count("reuse_after_error", 1);
        }
    }
    { vbuf d; memset(&d, 0, sizeof d); describe_calls(a, na, &d); vb_printf(&d, "| %s | ", hown); describe_calls(b, nbb, &d);
      vw_nontrivial(vh_hash(d.p, d.n, capA * 65537 + capB));
      if (vw_want_sample() && d.n < 400) { vb_printf(&d, " (capacities %zu then %zu)", capA, cap); vw_sample(vb_cstr(&d)); }
      vb_free(&d); }
    free(dA); free(dB); free(w);
    for (int i = 0; i < na; i++) call_free(&a[i]);
    for (int i = 0; i < nbb; i++) call_free(&b[i]);
    vb_free(&fa); vb_free(&fb);
}

/* ------------------------------------------------------------------ C05 sweeps -- */
static binson_parser *P; static binson_state ST[12];
static uint8_t *blk[16];   /* exact blocks of size index+? reused by the integer sweep */

static inline void int_case(int64_t v)
{
    /* expected encoding, written out by hand (not through ve_int) to keep the sweep cheap */
    uint8_t e[11]; size_t n = 0;
    e[n++] = 0x42;
    uint64_t u = (uint64_t)v;
    if (v >= -128 && v <= 127) { e[n++] = 0x10; e[n++] = (uint8_t)u; }
    else if (v >= -32768 && v <= 32767) { e[n++] = 0x11; e[n++] = (uint8_t)u; e[n++] = (uint8_t)(u >> 8); }
    else if (v >= -2147483648LL && v <= 2147483647LL) { e[n++] = 0x12; for (int i = 0; i < 4; i++) e[n++] = (uint8_t)(u >> (8 * i)); }
    else { e[n++] = 0x13; for (int i = 0; i < 8; i++) e[n++] = (uint8_t)(u >> (8 * i)); }
    e[n++] = 0x43;
    uint8_t *dst = blk[n];
    binson_writer w;
    binson_writer_init(&w, dst, n);
    bool ok = binson_write_array_begin(&w) && binson_write_integer(&w, v) && binson_write_array_end(&w);
    if (!ok || w.error_flags != BINSON_ERROR_NONE || binson_writer_get_counter(&w) != n || memcmp(dst, e, n) != 0) {
        vbuf d; memset(&d, 0, sizeof d);
        vb_printf(&d, "binson_write_integer(%lld): counter=%zu error=%s bytes=", (long long)v, binson_writer_get_counter(&w), verr_name((int)w.error_flags));
        vb_hex(&d, dst, n, 11); vb_printf(&d, " expected canonical "); vb_hex(&d, e, n, 11);
        char sig[80]; snprintf(sig, sizeof sig, "c05:int-encoding:width%zu", n - 3);
        vw_violation(sig, "%s", vb_cstr(&d)); vb_free(&d);
        return;
    }
    P->state = ST; P->max_depth = 2;
    bool pok = binson_parser_init_array(P, dst, n) && binson_parser_verify(P) && binson_parser_go_into_array(P) && binson_parser_next(P);
    if (!pok || binson_parser_get_type(P) != BINSON_TYPE_INTEGER || binson_parser_get_integer(P) != v || binson_parser_next(P) || !binson_parser_leave_array(P) || P->error_flags != BINSON_ERROR_NONE) {
        char what[200]; snprintf(what, sizeof what, "integer %lld written by the writer does not decode back (got %lld, error %s)", (long long)v, (long long)binson_parser_get_integer(P), verr_name((int)P->error_flags));
        char sig[80]; snprintf(sig, sizeof sig, "c05:int-roundtrip:width%zu", n - 3);
        vw_violation(sig, "%s", what);
    }
}

static void double_case(uint64_t bits)
{
    uint8_t e[11]; e[0] = 0x42; e[1] = 0x46; for (int i = 0; i < 8; i++) e[2 + i] = (uint8_t)(bits >> (8 * i)); e[10] = 0x43;
    uint8_t *dst = blk[11];
    binson_writer w; double d; memcpy(&d, &bits, 8);
    binson_writer_init(&w, dst, 11);
    bool ok = binson_write_array_begin(&w) && binson_write_double(&w, d) && binson_write_array_end(&w);
    if (!ok || binson_writer_get_counter(&w) != 11 || memcmp(dst, e, 11) != 0) {
        vbuf o; memset(&o, 0, sizeof o); vb_printf(&o, "binson_write_double(bits %016llx) wrote ", (unsigned long long)bits); vb_hex(&o, dst, 11, 11);
        vw_violation("c05:double-encoding", "%s", vb_cstr(&o)); vb_free(&o); return;
    }
    P->state = ST; P->max_depth = 2;
    bool pok = binson_parser_init_array(P, dst, 11) && binson_parser_verify(P) && binson_parser_go_into_array(P) && binson_parser_next(P);
    double g = binson_parser_get_double(P); uint64_t gb; memcpy(&gb, &g, 8);
    if (!pok || binson_parser_get_type(P) != BINSON_TYPE_DOUBLE || gb != bits) {
        char what[200]; snprintf(what, sizeof what, "double bits %016llx decode back as %016llx", (unsigned long long)bits, (unsigned long long)gb);
        vw_violation("c05:double-roundtrip", "%s", what);
    }
}

static void strlen_case(vrng *r, size_t len, int kind /* 0 string 1 bytes 2 name */)
{
    uint8_t *src = vg_exact(len);
    for (size_t i = 0; i < len; i++) src[i] = (uint8_t)vr64(r);
    const uint8_t *arg = (len == 0 && vrn(r, 2)) ? NULL : src;      /* an empty value may come with a NULL pointer (std::vector::data()) */
    vbuf e; memset(&e, 0, sizeof e);
    vb_u8(&e, 0x40);
    if (kind == 2) { ve_strlike(&e, 0x14, src, len); vb_u8(&e, 0x44); }
    else { ve_strlike(&e, 0x14, (const uint8_t *)"k", 1); ve_strlike(&e, kind == 0 ? 0x14 : 0x18, src, len); }
    vb_u8(&e, 0x41);
    uint8_t *dst = vg_exact(e.n);
    binson_writer w; binson_writer_init(&w, dst, e.n);
    binson_write_object_begin(&w);
    if (kind == 2) { binson_write_name_with_len(&w, (const char *)arg, len); binson_write_boolean(&w, true); }
    else { binson_write_name(&w, "k"); if (kind == 0) binson_write_string_with_len(&w, (const char *)arg, len); else binson_write_bytes(&w, arg, len); }
    binson_write_object_end(&w);
    static const char *kn[] = { "string", "bytes", "name" };
    char sig[80], what[300];
    if (w.error_flags != BINSON_ERROR_NONE || binson_writer_get_counter(&w) != e.n || memcmp(dst, e.p, e.n) != 0) {
        snprintf(sig, sizeof sig, "c05:%s-encoding", kn[kind]);
        snprintf(what, sizeof what, "%s of %zu bytes: counter=%zu (expected %zu) error=%s or bytes differ from the canonical encoding (header %02x %02x %02x %02x..)", kn[kind], len, binson_writer_get_counter(&w), e.n, verr_name((int)w.error_flags), dst[0], e.n > 1 ? dst[1] : 0, e.n > 2 ? dst[2] : 0, e.n > 3 ? dst[3] : 0);
        vw_violation(sig, "%s", what);
    } else {
        P->state = ST; P->max_depth = 10;
        bool ok = binson_parser_init_object(P, dst, e.n) && binson_parser_verify(P) && binson_writer_verify(&w) && binson_parser_go_into_object(P) && binson_parser_next(P);
        bbuf *nm = ok ? binson_parser_get_name(P) : NULL;
        bbuf *val = ok ? (kind == 0 ? binson_parser_get_string_bbuf(P) : kind == 1 ? binson_parser_get_bytes_bbuf(P) : nm) : NULL;
        if (!ok || !val || val->bsize != len || memcmp(val->bptr, src, len) != 0) {
            snprintf(sig, sizeof sig, "c05:%s-roundtrip", kn[kind]);
            snprintf(what, sizeof what, "%s of %zu bytes written by the writer is not accepted / does not decode back (error %s)", kn[kind], len, verr_name((int)P->error_flags));
            vw_violation(sig, "%s", what);
        }
    }
    vw_nontrivial(vh_hash(&len, sizeof len, (uint64_t)kind + 100));
    vg_free(dst, e.n); vb_free(&e); vg_free(src, len);
}

/* in-place re-encoding: the value's source lies inside the writer's own buffer and overlaps the destination
 * (the writer copies with memmove); the bytes produced must be the value as it was when the call was made */
static void overlap_case(vrng *r)
{
    size_t len = 1 + vrn(r, vrn(r, 4) ? 200 : 3000);
    int kind = (int)vrn(r, 3);                               /* bytes / string / raw */
    size_t pre = 1 + vrn(r, 6);                              /* tokens already written */
    size_t hdr = kind == 2 ? 0 : (len <= 127 ? 2 : (len <= 32767 ? 3 : 5));
    size_t pos = pre, dstpay = pos + hdr;
    /* source start relative to the payload destination: 0 .. len-1 above it (overlapping), or further up (disjoint).
     * A source BELOW the payload destination would overlap the length prefix the call itself has to write first; no
     * copy order can preserve that, so it is not a meaningful request and is not generated. */
    long delta = (long)vrn(r, (uint32_t)len);
    if (vrn(r, 6) == 0) delta += (long)len + (long)vrn(r, 40);
    if (kind == 2 && vrn(r, 2) && (size_t)pos >= 1) {
        /* write_raw has no prefix, so a source BELOW the destination (src < dst < src+len: shifting bytes up) is meaningful too */
        long back = 1 + (long)vrn(r, (uint32_t)(len < pos ? len : pos));
        delta = -back;
    }
    long srcoff = (long)dstpay + delta;
    size_t cap = (size_t)srcoff + len > dstpay + len ? (size_t)srcoff + len : dstpay + len;
    cap += 1;
    uint8_t *buf = vg_exact(cap);
    for (size_t i = 0; i < cap; i++) buf[i] = (uint8_t)vr64(r);
    uint8_t *snap = (uint8_t *)malloc(len);
    binson_writer w; binson_writer_init(&w, buf, cap);
    for (size_t i = 0; i < pre; i++) binson_write_boolean(&w, i & 1);
    memcpy(snap, buf + srcoff, len);                         /* the value as handed over */
    bool ret = kind == 0 ? binson_write_bytes(&w, buf + srcoff, len) : kind == 1 ? binson_write_string_with_len(&w, (const char *)(buf + srcoff), len) : binson_write_raw(&w, buf + srcoff, len);
    vbuf e; memset(&e, 0, sizeof e);
    if (kind == 2) vb_put(&e, snap, len); else ve_strlike(&e, kind == 0 ? 0x18 : 0x14, snap, len);
    if (!ret || w.error_flags != BINSON_ERROR_NONE || binson_writer_get_counter(&w) != pos + e.n || memcmp(buf + pos, e.p, e.n) != 0) {
        size_t at = 0; while (at < e.n && buf[pos + at] == e.p[at]) at++;
        char what[300]; snprintf(what, sizeof what, "%s of %zu bytes whose source starts %ld bytes %s its destination inside the writer's own buffer: ret=%d error=%s, output differs from the value handed over at byte %zu",
                                 kind == 0 ? "write_bytes" : kind == 1 ? "write_string_with_len" : "write_raw", len, delta < 0 ? -delta : delta, delta < 0 ? "below" : "above", ret, verr_name((int)w.error_flags), at);
        vw_violation(delta < 0 ? "c05:overlap:source-below" : "c05:overlap:source-above", "%s", what);
    }
    vw_count("overlapping_source_writes", 1);
    uint64_t key[3] = { len, (uint64_t)delta, (uint64_t)kind };
    vw_nontrivial(vh_hash(key, sizeof key, 55));
    if (vw_want_sample()) { char s[200]; snprintf(s, sizeof s, "%s of %zu bytes, source %ld bytes from its destination inside the writer's buffer: output equals the value handed over", kind == 0 ? "write_bytes" : kind == 1 ? "write_string_with_len" : "write_raw", len, delta); vw_sample(s); }
    vb_free(&e); free(snap); vg_free(buf, cap);
}

/* well-formed sequences derived from trees */
static const vbuf *EMIT_ENC;     /* the independent encoding of the tree being emitted (spans valid) */
static bool EMIT_RAW_OK = true;  /* off for nesting ladders: every container of the chain is opened and closed by its own calls */
static void emit(binson_writer *w, const vnode *n, vrng *r, uint64_t *calls)
{
    (*calls)++;
    if ((n->kind == K_OBJ || n->kind == K_ARR) && n->parent && EMIT_ENC && EMIT_RAW_OK && vrn(r, 12) == 0) {
        /* a pre-encoded sub-document handed over with binson_write_raw */
        binson_write_raw(w, EMIT_ENC->p + n->off, n->len);
        vw_count("raw_embedded_containers", 1);
        return;
    }
    if (vrn(r, 25) == 0) {
        /* a query while the document is still open (answers false) must have no side effect on what follows */
        (void)binson_writer_verify(w); (void)binson_writer_get_counter(w);
        vw_count("queries_inside_sequences", 1);
    }
    switch (n->kind) {
    case K_BOOL: binson_write_boolean(w, n->b); break;
    case K_INT: binson_write_integer(w, n->i); break;
    case K_DBL: { double d; memcpy(&d, &n->dbits, 8); binson_write_double(w, d); break; }
    case K_STR:
        if (!memchr(n->data, 0, n->data_len) && vrn(r, 2)) binson_write_string(w, (const char *)n->data);   /* arena strings are NUL terminated */
        else binson_write_string_with_len(w, (n->data_len == 0 && vrn(r, 2)) ? NULL : (const char *)n->data, n->data_len);
        break;
    case K_BYTES: binson_write_bytes(w, (n->data_len == 0 && vrn(r, 2)) ? NULL : n->data, n->data_len); break;
    case K_OBJ:
        binson_write_object_begin(w);
        for (uint32_t i = 0; i < n->nkids; i++) {
            const vnode *k = n->kids[i];
            if (!memchr(k->name, 0, k->name_len) && vrn(r, 2)) {
                /* the argument is an expression with a side effect, as in write_name(w, *p++): it is evaluated once */
                const char *nmv[4] = { (const char *)k->name, "\x01not-this-1", "\x01not-this-2", "\x01not-this-3" }; size_t ni = 0;
                binson_write_name(w, nmv[ni++]);
                if (ni != 1) vw_violation("c05:argument-evaluated-more-than-once", "binson_write_name(w, v[i++]) evaluated its name argument %zu times", ni);
            }
            else binson_write_name_with_len(w, (const char *)k->name, k->name_len);
            emit(w, k, r, calls);
        }
        binson_write_object_end(w);
        break;
    case K_ARR:
        binson_write_array_begin(w);
        for (uint32_t i = 0; i < n->nkids; i++) emit(w, n->kids[i], r, calls);
        binson_write_array_end(w);
        break;
    }
}
static int levels(const vnode *n, int od)
{
    int here = od + (n->kind == K_OBJ ? 1 : 0), best = here;
    for (uint32_t i = 0; i < n->nkids; i++) { int d = levels(n->kids[i], here); if (d > best) best = d; }
    return best;
}
static void tree_case(vrng *r)
{
    int root = vrn(r, 4) ? K_OBJ : K_ARR;
    vgen g; vg_default(&g, root);
    g.max_nodes = 2 + (int)vrn(r, vrn(r, 5) ? 30 : 300);
    g.big_permille = 60; g.huge_permille = vrn(r, 20) ? 0 : 30;
    if (vrn(r, 3) == 0) { g.max_obj_depth = 10; g.container_permille = 600; g.max_arr_depth = 6; }
    /* ladders: few object levels with long array runs, or 100..255 object levels each holding arrays (hundreds of containers open at once) */
    bool ladder = vrn(r, 25) == 0;
    EMIT_RAW_OK = !ladder;
    if (ladder) vw_count("nesting_ladders_written", 1);
    vnode *t = ladder ? vt_ladder(r, root, vrn(r, 2) ? 1 + (int)vrn(r, 10) : 100 + (int)vrn(r, 156), 1 + (int)vrn(r, 255)) : vt_gen(r, &g);
    /* the tree generator NUL-terminates arena copies of names and payloads */
    vbuf e; memset(&e, 0, sizeof e);
    vt_encode(t, &e);
    uint8_t *dst = vg_exact(e.n);
    binson_writer w; binson_writer_init(&w, dst, e.n);
    uint64_t calls = 0;
    EMIT_ENC = &e;
    emit(&w, t, r, &calls);
    char what[400];
    if (w.error_flags != BINSON_ERROR_NONE || binson_writer_get_counter(&w) != e.n || memcmp(dst, e.p, e.n) != 0) {
        size_t at = 0; while (at < e.n && dst[at] == e.p[at]) at++;
        snprintf(what, sizeof what, "well-formed write sequence: counter=%zu error=%s, canonical encoding has %zu bytes, first difference at offset %zu", binson_writer_get_counter(&w), verr_name((int)w.error_flags), e.n, at);
        vbuf d; memset(&d, 0, sizeof d); vb_printf(&d, "%s\ntree: ", what); vt_describe(t, &d, 700);
        vw_violation("c05:tree-encoding", "%s", vb_cstr(&d)); vb_free(&d);
    } else {
        int need = levels(t, root == K_ARR ? 1 : 0);
        binson_state *st = (binson_state *)malloc(sizeof(binson_state) * (size_t)(need < 1 ? 1 : need));
        P->state = st; P->max_depth = (uint_fast8_t)(need < 1 ? 1 : need);
        bool ok = (root == K_OBJ ? binson_parser_init_object(P, dst, e.n) : binson_parser_init_array(P, dst, e.n));
        if (ok && vrn(r, 3) == 0) {
            /* the application looked into the output first and stopped somewhere deep; verify must not care */
            bool b = root == K_OBJ ? binson_parser_go_into_object(P) : binson_parser_go_into_array(P);
            for (uint32_t i = 0; b && i < 2 + vrn(r, 8); i++) {
                if (!binson_parser_next(P)) break;
                binson_type ty = binson_parser_get_type(P);
                if (ty == BINSON_TYPE_OBJECT) binson_parser_go_into_object(P); else if (ty == BINSON_TYPE_ARRAY) binson_parser_go_into_array(P);
            }
            vw_count("verify_after_partial_walk", 1);
        }
        ok = ok && binson_parser_verify(P);
        if (!ok) {
            vbuf d; memset(&d, 0, sizeof d); vb_printf(&d, "the writer's output for a well-formed sequence is rejected by binson_parser_verify (error %s)\ntree: ", verr_name((int)P->error_flags)); vt_describe(t, &d, 700);
            vw_violation("c05:verify-rejects-writer-output", "%s", vb_cstr(&d)); vb_free(&d);
        } else {
            uint64_t ev = 0;
            const char *err = vc_visit_all(P, t, dst, false, r, &ev);
            if (err) {
                vbuf d; memset(&d, 0, sizeof d); vb_printf(&d, "decoding the writer's output does not give back what was written: %s\ntree: ", err); vt_describe(t, &d, 700);
                vw_violation("c05:decode-back", "%s", vb_cstr(&d)); vb_free(&d);
            }
            vw_count("values_decoded_back", ev);
            if (root == K_OBJ && need <= 10) {
                if (!binson_writer_verify(&w)) vw_violation("c05:writer_verify-rejects", "binson_writer_verify rejects the writer's own output for a well-formed object of <= 10 levels");
                vw_count("writer_verify_checked", 1);
            }
        }
        free(st);
    }
    vw_count("write_calls", calls);
    vw_max("max_encoded_size", e.n);
    if (calls >= 3) vw_nontrivial(vh_hash(e.p, e.n, 5));
    if (vw_want_sample() && e.n < 80 && calls >= 4) { vbuf d; memset(&d, 0, sizeof d); vt_describe(t, &d, 300); vb_printf(&d, " -> %zu bytes identical to the independent encoder, verify ok, decoded back", e.n); vw_sample(vb_cstr(&d)); vb_free(&d); }
    vg_free(dst, e.n); vb_free(&e);
}

int main(int argc, char **argv)
{
    vw_init(argc, argv);
    const char *m = VA.mode;
    vrng r;
    P = (binson_parser *)malloc(sizeof(binson_parser));
    for (size_t i = 1; i < 16; i++) blk[i] = vg_exact(i);
    if (!strcmp(m, "c05i")) {
        if (strstr(VA.opt, "all32")) {
            /* every 32-bit value, split into contiguous ranges */
            uint64_t per = ((uint64_t)1 << 32) / VA.nworkers, lo = VA.wid * per + VA.start, hi = (VA.wid + 1) * per;
            for (uint64_t k = lo; k < hi && !vw_stop(); k++) {
                if ((k & 0xFFFFF) == 0) vw_case(k - VA.wid * per);
                int_case((int64_t)(int32_t)(uint32_t)k);
            }
            vw_count("integers_swept", hi - lo); vw_add_evals(hi - lo);
            vw_nontrivial(vh_hash(&lo, 8, 1)); vw_nontrivial(vh_hash(&hi, 8, 2));
            return vw_finish();
        }
        int bits = 12; const char *b = strstr(VA.opt, "bits="); if (b) bits = atoi(b + 5);
        uint64_t span = ((uint64_t)2 << bits) + 1;             /* deltas -2^bits .. 2^bits */
        uint64_t total = 64 * 2 * span, n = 0;
        for (uint64_t idx = VA.wid + VA.start * VA.nworkers; idx < total && !vw_stop(); idx += VA.nworkers) {
            if ((n++ & 0xFFFF) == 0) vw_case(idx / VA.nworkers);
            uint64_t k = idx / (2 * span), rem = idx % (2 * span);
            int64_t delta = (int64_t)(rem % span) - ((int64_t)1 << bits);
            uint64_t base = k == 63 ? (uint64_t)1 << 63 : (uint64_t)1 << k;
            uint64_t v = base + (uint64_t)delta;
            if (rem >= span) v = (uint64_t)0 - v;
            int_case((int64_t)v);
            if ((idx & 0x3FF) == 0) vw_nontrivial(vh_hash(&v, 8, 3));
        }
        vw_count("integers_swept", n); vw_add_evals(n);
        /* plus random 64-bit values */
        for (uint64_t k = 0; k < VA.cases && !vw_stop(); k++) { vr_seed(&r, VA.seed, VA.wid, k); int64_t v = (int64_t)vr64(&r); int_case(v); if ((k & 0xFF) == 0) vw_nontrivial(vh_hash(&v, 8, 4)); }
        vw_count("integers_random", VA.cases); vw_add_evals(VA.cases);
        { vbuf s; memset(&s, 0, sizeof s); vb_printf(&s, "write_integer(v) for every v = +-(2^k + d), k=0..63, |d| <= 2^%d, into an exact-size [v] document, compared with the canonical bytes and decoded back", bits); vw_sample(vb_cstr(&s)); vb_free(&s); }
        return vw_finish();
    }
    for (uint64_t k = VA.start; k < VA.start + VA.cases && !vw_stop(); k++) {
        vw_case(k);
        vr_seed(&r, VA.seed, VA.wid, k);
        va_reset();
        if (!strcmp(m, "c04")) case_lists(&r, false);
        else if (!strcmp(m, "c09w")) case_lists(&r, true);
        else if (!strcmp(m, "c12w")) case_c12w(&r);
        else if (!strcmp(m, "c05d")) { uint64_t b = (k % 3 == 0) ? vt_rand_dbits(&r) : vr64(&r); double_case(b); vw_nontrivial(vh_hash(&b, 8, 6)); vw_count("doubles", 1);
                                       if (vw_want_sample()) { char s[100]; snprintf(s, sizeof s, "write_double(bits %016llx) -> canonical 9 bytes, decoded back bit-identical", (unsigned long long)b); vw_sample(s); } }
        else if (!strcmp(m, "c05s")) {
            /* lengths: the global case number walks the length list */
            uint64_t g = k * VA.nworkers + VA.wid;
            size_t len; int kind;
            if (VA.tier) { len = (size_t)(g % 70001); kind = (int)((g / 70001) % 3); }
            else {
                uint64_t i = g % 1624; kind = (int)((g / 1624) % 3);
                if (i < 401) len = (size_t)i; else if (i < 902) len = 32500 + (size_t)(i - 401); else len = ((size_t)(i - 902) * 97) % 70001;
            }
            strlen_case(&r, len, kind);
            vw_count("lengths_checked", 1); vw_max("max_length", len);
            if (vw_want_sample()) { char s[100]; snprintf(s, sizeof s, "string/bytes/name of %zu random bytes -> canonical length prefix, verify ok, decoded back", len); vw_sample(s); }
        }
        else if (!strcmp(m, "c05t")) tree_case(&r);
        else if (!strcmp(m, "c05o")) overlap_case(&r);
        else { fprintf(stderr, "HARNESS: unknown mode %s\n", m); return 2; }
    }
    return vw_finish();
}
