#!/bin/sh
# runs every thorough check once on a frozen copy of /repo's HEAD (evidence redirected: this is a validation run,
# not the committed evidence; /repo's working tree may have a seeded patch applied by tools/seedtest.py meanwhile)
cd "$(dirname "$0")/.."
FROZEN=/tmp/thorough-repo-$$
rm -rf $FROZEN; mkdir -p $FROZEN
git -C /repo archive HEAD src include utest/test_data | tar -x -C $FROZEN
export VERIF_REPO=$FROZEN VERIF_EVIDENCE_DIR=/tmp/thorough-evidence VERIF_REPLAY_DIR=/tmp/thorough-replay
for p in ${*:-C01 C02 C03 C04 C05 C06 C07 C08 C09 C10 C11 C12 C13 C14 C15 C16 C17 C18}; do
  /usr/bin/time -f "$p %e s" ./check $p --tier thorough 2>&1 | grep -E "verdict|VIOLATION|HARNESS|KNOWN| s$|job "
done
rm -rf $FROZEN
