#!/usr/bin/env python3
"""seedtest.py <PID> <k> [check ids...] — confirms a seeded defect produced by a sub-agent and runs our checks against it.

 1. in the scratch worktree /tmp/seed-<PID>: apply SEED/patch<k>.diff, build, run the full ctest suite (must pass),
    build+run the demonstration (must fail with the patch, pass without it);
 2. copy patch, demonstration and meta.json to /verif/seeded/<PID>-<k>/;
 3. git -C /repo apply the patch, run ./check <id> --tier quick for the given ids (default: PID), undo with git checkout.
"""
import json, os, re, shutil, subprocess, sys, time
os.environ["VERIF_EVIDENCE_DIR"] = "/tmp/seed-evidence"; os.environ["VERIF_REPLAY_DIR"] = "/tmp/seed-replay"

args = [a for a in sys.argv[1:] if not a.startswith("--")]
IN_REPO = "--in-repo" in sys.argv      # literal procedure: git -C /repo apply, run, git -C /repo checkout -- . (only when nothing else reads /repo)
RERUN = "--rerun" in sys.argv          # only re-run the checks against an already confirmed seed in /verif/seeded
pid, k = args[0], args[1]
ids = args[2:] or [pid]
_m = [a for a in sys.argv if re.fullmatch(r"--round\d+", a)]
ROUND = int(_m[0][7:]) if _m else 1   # later-round worktrees /tmp/seed<N>-<PID>, kept as seeded/<PID>-r<N>-<k>
WT = ("/tmp/seed%d-%s" % (ROUND, pid)) if ROUND > 1 else "/tmp/seed-%s" % pid
TAG = "%s-r%d-%s" % (pid, ROUND, k) if ROUND > 1 else "%s-%s" % (pid, k)
SEED = os.path.join(WT, "SEED")
patch = os.path.join(SEED, "patch%s.diff" % k)
demo = None
if os.path.exists(os.path.join(SEED, "cross%s.sh" % k)):
    demo = os.path.join(SEED, "cross%s.sh" % k)       # C18: the demonstration is the cross-configuration script
for ext in ((".c", ".cpp", ".sh") if demo is None else ()):
    if os.path.exists(os.path.join(SEED, "demo%s%s" % (k, ext))):
        demo = os.path.join(SEED, "demo%s%s" % (k, ext))
def sh(cmd, **kw):
    return subprocess.run(cmd, shell=True, stdout=subprocess.PIPE, stderr=subprocess.STDOUT, universal_newlines=True, errors="replace", **kw)

SCRATCH = "/tmp/seedtest-repo-%d" % os.getpid()
def apply_patch(patchfile):
    """returns (ok, message); afterwards the environment selects the patched tree"""
    if IN_REPO:
        sh("git -C /repo checkout -- .")
        r = sh("git -C /repo apply %s" % patchfile)
        os.environ.pop("VERIF_REPO", None)
        return r.returncode == 0, r.stdout
    shutil.rmtree(SCRATCH, ignore_errors=True); os.makedirs(SCRATCH)
    sh("git -C /repo archive HEAD src include utest/test_data | tar -x -C %s" % SCRATCH)
    r = sh("cd %s && patch -p1 -s < %s" % (SCRATCH, patchfile))
    os.environ["VERIF_REPO"] = SCRATCH
    return r.returncode == 0, r.stdout
def undo_patch():
    if IN_REPO:
        sh("git -C /repo checkout -- .")
    else:
        shutil.rmtree(SCRATCH, ignore_errors=True)

def run_demo(san):
    exe = "/tmp/demo_%s_%s" % (TAG, k)
    flags = "-g -fsanitize=address,undefined -fno-sanitize-recover=all" if san else ""
    if demo.endswith(".sh"):
        r = sh("cd %s && sh %s" % (WT, demo), timeout=600)
        return r.returncode, r.stdout[-1500:]
    if demo.endswith(".cpp"):
        c = "g++ -std=c++11 %s -DBINSON_PARSER_WITH_PRINT -I%s/include -o %s %s %s/src/binson_parser.c %s/src/binson_writer.c %s/src/binson.cpp -x none" % (flags, WT, exe, demo, WT, WT, WT)
        c = "gcc -std=c99 %s -DBINSON_PARSER_WITH_PRINT -I%s/include -c %s/src/binson_parser.c -o %s_p.o && gcc -std=c99 %s -DBINSON_PARSER_WITH_PRINT -I%s/include -c %s/src/binson_writer.c -o %s_w.o && g++ -std=c++11 %s -DBINSON_PARSER_WITH_PRINT -I%s/include -o %s %s %s/src/binson.cpp %s_p.o %s_w.o" % (
            flags, WT, WT, exe, flags, WT, WT, exe, flags, WT, exe, demo, WT, exe, exe)
    else:
        c = "gcc -std=gnu11 %s -DBINSON_PARSER_WITH_PRINT -I%s/include -o %s %s %s/src/binson_parser.c %s/src/binson_writer.c -ldl -lm" % (flags, WT, exe, demo, WT, WT)
    r = sh(c)
    if r.returncode != 0:
        return -100, "demo does not compile: " + r.stdout[-1500:]
    try:
        r = sh(exe, timeout=120, env=dict(os.environ, ASAN_OPTIONS="detect_leaks=0"))
        rc, out = r.returncode, r.stdout[-1500:]
    except subprocess.TimeoutExpired:
        rc, out = -9, "(timed out after 120 s)"
    for f in (exe, exe + "_p.o", exe + "_w.o"):
        if os.path.exists(f):
            os.remove(f)
    return rc, out

meta = dict(property=pid, seed=k, patch=os.path.basename(patch))
if RERUN:
    d = "/verif/seeded/%s" % TAG
    meta = json.load(open(os.path.join(d, "meta.json")))
    patch = os.path.join(d, "patch.diff")
    det = {}
    okp, msg = apply_patch(patch)
    assert okp, msg
    try:
        for cid in ids:
            t1 = time.time()
            try:
                rr = sh("cd /verif && ./check %s --tier quick" % cid, timeout=2400)
                rc, out = rr.returncode, rr.stdout
            except subprocess.TimeoutExpired:
                rc, out = -9, ""
            sigs = re.findall(r"sig=(.+?) occurrences=(\d+)", out)
            det[cid] = dict(rc=rc, sigs=sigs[:8], wall=round(time.time() - t1, 1))
            print("  %s-%s check %s: rc=%d %s (%.0fs)" % (pid, k, cid, rc, "DETECTED " + ", ".join(x for x, _ in sigs[:3]) if rc == 1 else ("inconclusive" if rc == 2 else "MISSED"), time.time() - t1))
    finally:
        undo_patch()
    for cid in det:
        det[cid]["how"] = "git -C /repo apply" if IN_REPO else "scratch copy of /repo HEAD via VERIF_REPO"
    prev = meta.get("checks_run", {}); prev.update(det); meta["checks_run"] = prev
    json.dump(meta, open(os.path.join(d, "meta.json"), "w"), indent=1)
    sys.exit(0)
assert os.path.exists(patch), patch
sh("cd %s && git checkout -- src include" % WT)
r = sh("cd %s && git apply --check %s" % (WT, patch))
if r.returncode != 0:
    print("REJECT: patch does not apply:", r.stdout); sys.exit(3)
sh("cd %s && git apply %s" % (WT, patch))
t0 = time.time()
r = sh("cd %s && cmake -G Ninja -S . -B _build -DBUILD_TESTS=ON >/dev/null && cmake --build _build 2>&1 | tail -5" % WT)
built = "FAILED" not in r.stdout and "error" not in r.stdout.lower()
r2 = sh("cd %s && ctest --test-dir _build -j8 --timeout 900 2>&1 | tail -4" % WT)
# the corpus tests are started through `sh -c "... 2&>1"`, which backgrounds them under dash: a seeded live-lock leaves them spinning forever
sh("ps -eo pid,args | awk -v p='%s/_build/' 'index($2, p) == 1 {print $1}' | xargs -r kill -9" % WT)
m = re.search(r"(\d+)% tests passed, (\d+) tests failed out of (\d+)", r2.stdout)
tests_ok = bool(m and m.group(2) == "0" and m.group(3) == "3979")
meta["builds"] = built; meta["tests"] = r2.stdout.strip().splitlines()[-3:] if r2.stdout.strip() else []
meta["tests_pass_with_patch"] = tests_ok
san = False
rc_p, out_p = run_demo(False) if demo else (None, "no demo")
sh("cd %s && git checkout -- src include" % WT)
rc_c, out_c = run_demo(False) if demo else (None, "no demo")
if demo and not (rc_p not in (0, -100) and rc_c == 0):
    # try the sanitizer form
    sh("cd %s && git apply %s" % (WT, patch))
    rc_p, out_p = run_demo(True)
    sh("cd %s && git checkout -- src include" % WT)
    rc_c, out_c = run_demo(True)
    san = True
meta["demo"] = os.path.basename(demo) if demo else None
meta["demo_with_patch"] = dict(rc=rc_p, tail=out_p[-400:])
meta["demo_clean"] = dict(rc=rc_c, tail=out_c[-400:])
meta["demo_built_with_sanitizers"] = san
demo_ok = demo is not None and rc_p not in (0, -100) and rc_c == 0
meta["demo_discriminates"] = demo_ok
print("confirm: builds=%s tests_pass=%s demo(patched rc=%s, clean rc=%s) -> %s   [%.0fs]" % (built, tests_ok, rc_p, rc_c, "OK" if (tests_ok and demo_ok) else "NOT CONFIRMED", time.time() - t0))
if not (tests_ok and demo_ok):
    print("  patched:", out_p[-300:].replace("\n", " | ")); print("  clean:", out_c[-300:].replace("\n", " | ")); print("  tests:", meta["tests"])
# what the sub-agent said about it
readme = os.path.join(SEED, "README.md")
meta["needs_to_manifest"] = ""
if os.path.exists(readme):
    meta["agent_readme"] = open(readme, errors="replace").read()[:6000]
# run our checks against it
det = {}
okp, msg = apply_patch(patch)
if not okp:
    print("patch does not apply to /repo:", msg)
else:
    try:
        for cid in ids:
            t1 = time.time()
            rr = sh("cd /verif && ./check %s --tier quick" % cid, timeout=3600)
            sigs = re.findall(r"sig=(.+?) occurrences=(\d+)", rr.stdout)
            det[cid] = dict(rc=rr.returncode, sigs=sigs[:8], wall=round(time.time() - t1, 1))
            print("  check %s: rc=%d %s (%.0fs)" % (cid, rr.returncode, "DETECTED " + ", ".join(s for s, _ in sigs[:3]) if rr.returncode == 1 else ("inconclusive" if rr.returncode == 2 else "MISSED"), time.time() - t1))
            if rr.returncode == 2:
                print("   ", [l for l in rr.stdout.splitlines() if "HARNESS" in l][:3])
    finally:
        undo_patch()
for cid in det:
    det[cid]["how"] = "git -C /repo apply" if IN_REPO else "scratch copy of /repo HEAD via VERIF_REPO"
meta["checks_run"] = det
meta["ran"] = "tools/seedtest.py %s %s %s" % (pid, k, " ".join(ids))
if tests_ok and demo_ok:
    d = "/verif/seeded/%s" % TAG
    os.makedirs(d, exist_ok=True)
    shutil.copy(patch, os.path.join(d, "patch.diff"))
    shutil.copy(demo, os.path.join(d, os.path.basename(demo).replace("demo%s" % k, "demo").replace("cross%s" % k, "cross")))
    for extra in ("demo%s.c" % k, "demo%s.cpp" % k):
        if os.path.exists(os.path.join(SEED, extra)) and os.path.join(SEED, extra) != demo:
            shutil.copy(os.path.join(SEED, extra), os.path.join(d, extra))
    old = {}
    mp = os.path.join(d, "meta.json")
    if os.path.exists(mp):
        old = json.load(open(mp))
        prev = old.get("checks_run", {}); prev.update(det); meta["checks_run"] = prev
    json.dump(meta, open(mp, "w"), indent=1)
