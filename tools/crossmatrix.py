#!/usr/bin/env python3
"""crossmatrix.py [seed dirs...] — runs EVERY quick check against every confirmed seeded defect, on a scratch copy
of /repo (VERIF_REPO), and records which checks catch which change in /verif/seeded/matrix.json.
The primary detection runs (tools/seedtest.py) apply the patch to /repo itself; this wider matrix uses copies so that
it can run in the background without touching /repo."""
import json, os, re, shutil, subprocess, sys, time
os.environ["VERIF_EVIDENCE_DIR"] = "/tmp/xm-evidence"; os.environ["VERIF_REPLAY_DIR"] = "/tmp/xm-replay"
HERE = os.path.dirname(os.path.dirname(os.path.abspath(__file__)))   # works from a vp-run snapshot too
SEEDED = os.path.join(HERE, "seeded")
ALL = ["C%02d" % i for i in range(1, 19)]
seeds = [a for a in sys.argv[1:] if not a.startswith("--")] or sorted(d for d in os.listdir(SEEDED) if os.path.isdir(os.path.join(SEEDED, d)))
mpath = os.environ.get("XM_OUT") or os.path.join(SEEDED, "matrix.json")
matrix = json.load(open(mpath)) if os.path.exists(mpath) else {}
scratch = "/tmp/xm-repo-%d" % os.getpid()
for sd in seeds:
    shutil.rmtree(scratch, ignore_errors=True)
    os.makedirs(scratch)
    # the committed tree, not the working tree: /repo may have a seeded patch applied by tools/seedtest.py at this moment
    subprocess.run("git -C /repo archive HEAD src include utest/test_data | tar -x -C %s" % scratch, shell=True, check=True)
    r = subprocess.run("cd %s && patch -p1 -s < %s/%s/patch.diff" % (scratch, SEEDED, sd), shell=True, stdout=subprocess.PIPE, stderr=subprocess.STDOUT, universal_newlines=True)
    if r.returncode != 0:
        print(sd, "patch failed", r.stdout); continue
    row = matrix.get(sd, {})
    for cid in ALL:
        if cid in row and "--redo" not in sys.argv:
            continue
        t0 = time.time()
        try:
            rr = subprocess.run("cd %s && ./check %s --tier quick" % (HERE, cid), shell=True, stdout=subprocess.PIPE, stderr=subprocess.STDOUT, universal_newlines=True,
                                env=dict(os.environ, VERIF_REPO=scratch, VERIF_SCALE=os.environ.get("XM_SCALE", "0.25")), timeout=1500)
            rc = rr.returncode
        except subprocess.TimeoutExpired:
            rc = -9
        row[cid] = rc
        matrix[sd] = row
        json.dump(matrix, open(mpath, "w"), indent=0, sort_keys=True)
    print(sd, " ".join("%s:%s" % (c[1:], {0: ".", 1: "X", 2: "?"}.get(row[c], "T")) for c in ALL), flush=True)
shutil.rmtree(scratch, ignore_errors=True)
