#!/usr/bin/env python3
"""matrix_table.py <matrix.json> — markdown summary of which quick checks catch which seeded change."""
import json, sys, os
m = json.load(open(sys.argv[1]))
ALL = ["C%02d" % i for i in range(1, 19)]
print("| seeded change | caught by (quick checks, reduced budget) | own check |")
print("|---|---|---|")
own_missed = []
for sd in sorted(m):
    row = m[sd]
    caught = [c for c in ALL if row.get(c) == 1]
    inc = [c for c in ALL if row.get(c) not in (0, 1, None)]
    own = sd.split("-")[0]
    print("| %s | %s%s | %s |" % (sd, " ".join(caught) or "—", (" (inconclusive: %s)" % " ".join(inc)) if inc else "", "caught" if row.get(own) == 1 else "**silent at reduced budget**"))
    if row.get(own) != 1:
        own_missed.append(sd)
per = {c: sum(1 for sd in m if m[sd].get(c) == 1) for c in ALL}
print()
print("Changes caught per check: " + ", ".join("%s %d" % (c, per[c]) for c in ALL) + " (of %d)." % len(m))
if own_missed:
    print("Silent for their own property at the reduced budget: " + ", ".join(own_missed) + ".")
