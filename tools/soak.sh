#!/bin/sh
# soak: every quick check at several VERIF_SEED values on a frozen copy of /repo's HEAD (evidence redirected);
# prints one line per (seed, check); anything but "held" needs attention.   usage: tools/soak.sh 13 14 15 ...
cd "$(dirname "$0")/.."
FROZEN=/tmp/soak-repo-$$
rm -rf $FROZEN; mkdir -p $FROZEN
git -C /repo archive HEAD src include utest/test_data | tar -x -C $FROZEN
export VERIF_REPO=$FROZEN VERIF_EVIDENCE_DIR=/tmp/soak-evidence VERIF_REPLAY_DIR=/tmp/soak-replay
for s in "$@"; do
  for p in C01 C02 C03 C04 C05 C06 C07 C08 C09 C10 C11 C12 C13 C14 C15 C16 C17 C18; do
    VERIF_SEED=$s ./check $p --tier quick > /tmp/soak-$$.out 2>&1; rc=$?
    echo "seed=$s $p rc=$rc $(grep -E 'verdict=' /tmp/soak-$$.out | sed 's/.*verdict=//') $(grep -E '^VIOLATION|^HARNESS|sig=' /tmp/soak-$$.out | head -3 | cut -c1-200 | tr '\n' ' ')"
  done
done
rm -rf $FROZEN /tmp/soak-$$.out
