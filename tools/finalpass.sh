#!/bin/sh
# Literal procedure of the brief for every kept seeded change: git -C /repo apply <patch>; run the quick check of its
# property; git -C /repo checkout -- .   (run only while nothing else compiles /repo's working tree)
cd "$(dirname "$0")/.."
for d in $(ls seeded | grep -E '^C[0-9]+-'); do
  pid=$(echo $d | cut -d- -f1)
  case "$d" in
    *-r3-*) k=${d##*-}; python3 tools/seedtest.py --round3 --rerun --in-repo $pid $k ;;
    *-r2-*) k=${d##*-}; python3 tools/seedtest.py --round2 --rerun --in-repo $pid $k ;;
    *) k=${d##*-}; python3 tools/seedtest.py --rerun --in-repo $pid $k ;;
  esac
  if [ -n "$(git -C /repo status --porcelain -- src include)" ]; then echo "REPO NOT CLEAN after $d"; git -C /repo checkout -- .; fi
done
